#!/bin/bash
# usage: tools/try_seed.sh <seed-dir> <PROP> [--only h1,h2]   -- apply the seeded change to /repo, run the check, undo it
set -u
d=$(readlink -f $1); shift; p=$1; shift
cd /repo && git apply "$d/patch.diff" || { echo "patch does not apply"; exit 3; }
cd /verif && bin/check $p "$@" > /tmp/seed_out.txt 2>&1; rc=$?
cd /repo && git checkout -- . 
echo "check rc=$rc"; grep -E "^VIOLATION|^MACHINERY|^INCONCLUSIVE|^KNOWN" /tmp/seed_out.txt | cut -c1-300
exit $rc
