#!/bin/sh
# setup_cmd: offline; builds nothing persistent except a native self-test of the printf content model and the vstd model.
set -e
cd "$(dirname "$0")/.."
for t in cbmc goto-cc goto-instrument clang++-14 llvm-link-14 opt-14 gcc g++ python3; do command -v $t >/dev/null || { echo "missing tool $t"; exit 1; }; done
gcc -w -o /var/tmp/verif_st_printf tools/selftest_printf.c && /var/tmp/verif_st_printf && rm -f /var/tmp/verif_st_printf
[ -x tools/selftest_vstd.sh ] && tools/selftest_vstd.sh
mkdir -p evidence replay
echo "setup ok"
