#!/usr/bin/env python3
"""Regenerate /verif/MANIFEST.json from harness/*/spec.py (MANIFEST dicts) and tools/not_applicable.json."""
import os, sys, json, importlib.util
VERIF = os.path.dirname(os.path.dirname(os.path.abspath(__file__)))
sys.path.insert(0, os.path.join(VERIF, 'lib'))
checks = []
claimed = set()
for pid in sorted(os.listdir(os.path.join(VERIF, 'harness'))):
    sp = os.path.join(VERIF, 'harness', pid, 'spec.py')
    if not os.path.exists(sp):
        continue
    spec = importlib.util.spec_from_file_location('spec_' + pid, sp)
    mod = importlib.util.module_from_spec(spec); spec.loader.exec_module(mod)
    m = getattr(mod, 'MANIFEST', None)
    if not m or m.get('disabled'):
        continue
    claimed.add(pid)
    checks.append({
        'property_id': pid,
        'quick_cmd': 'bin/check %s --tier quick' % pid,
        'thorough_cmd': 'bin/check %s --tier thorough' % pid,
        'evidence_file': 'evidence/%s.json' % pid,
        'replay_cmd_template': 'bin/check %s --replay {path}' % pid,
        'engine': m.get('engine', 'vrun'),
        'level_claimed': {'category': 'model_checking', 'text': m['level_text'], 'design_ref': m.get('design_ref', 'DESIGN.md section 3')},
        'level_note': m['level_note'],
        'technique': m['technique'],
    })
na = json.load(open(os.path.join(VERIF, 'tools', 'not_applicable.json')))
na = [x for x in na if x['property_id'] not in claimed]
props = [json.loads(l)['id'] for l in open(os.path.join(VERIF, 'properties.jsonl'))]
missing = [p for p in props if p not in claimed and p not in [x['property_id'] for x in na]]
for p in missing:
    na.append({'property_id': p, 'reason': 'no check registered yet (work in progress; see DESIGN.md)'})
man = {
    'version': 1,
    'setup_cmd': 'tools/setup.sh',
    'hooks': {'guard': 'STEPCODE_STEPCODE_VERIF', 'enable': 'no hooks are needed: harnesses #include or link the unmodified sources (private members reached with -Dprivate=public in the wrapper TU only)',
              'baseline_off_cmd': 'cmake --build /repo/_build -j16 && ctest --test-dir /repo/_build -j8 --timeout 900', 'source_commits': [], 'add_only': True},
    'engines': [
        {'name': 'cdirect', 'path': 'lib/vrun.py', 'serves_properties': sorted(claimed), 'kind_free_text': 'goto-cc + CBMC 6.11 on the real C translation units (flags of the real build), harness per kernel, witness twin, native replay'},
        {'name': 'irc', 'path': 'lib/ir2c.py', 'serves_properties': sorted(claimed), 'kind_free_text': 'real C++ units -> clang LLVM IR (against the vstd model library) -> own IR-to-C translator (devirtualising) -> CBMC; translation validated per run against a g++/libstdc++ build'},
        {'name': 'pysym', 'path': 'lib/pysym.py', 'serves_properties': ['C19'], 'kind_free_text': 'CrossHair (Z3) symbolic execution of the real stepcode Python runtime'},
    ],
    'checks': checks,
    'not_applicable': na,
    'notes': 'Every check decides its kernels by a solver query over all inputs within the stated bounds (CBMC SAT/SMT or CrossHair/Z3); exit 0 held, exit 1 replayed VIOLATION, exit 2 machinery fault/inconclusive (never a VIOLATION line). Known findings: known_findings.json.',
}
json.dump(man, open(os.path.join(VERIF, 'MANIFEST.json'), 'w'), indent=1)
print('MANIFEST.json: %d checks, %d not applicable' % (len(checks), len(na)))
