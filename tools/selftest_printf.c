/* native differential test of lib/cmodels/printf_model.c against glibc (run by setup_cmd) */
#define PRINTF_MODEL_SELFTEST 1
#include "../lib/cmodels/printf_model.c"
#include <stdio.h>
#include <string.h>
#include <limits.h>
static int bad, n;
#define T(fmt, ...) do { char a[300], b[300]; int ra = snprintf(a, sizeof a, fmt, __VA_ARGS__); int rb = m_snprintf(b, sizeof b, fmt, __VA_ARGS__); n++; \
   if(ra != rb || strcmp(a, b)) { bad++; printf("MISMATCH fmt=[%s] glibc=[%s](%d) model=[%s](%d)\n", fmt, a, ra, b, rb); } } while(0)
int main(void) {
    int ints[] = { 0, 1, -1, 7, 10, 99, 100, -100, 255, 4096, INT_MAX, INT_MIN, 65535 };
    const char *strs[] = { "", "a", "abc", "hello world", "x%y" };
    for(unsigned i = 0; i < sizeof ints / sizeof *ints; i++) {
        int v = ints[i];
        T("%d", v); T("%i", v); T("%u", (unsigned)v); T("%x", (unsigned)v); T("%X", (unsigned)v); T("%03d", v); T("%5d|", v); T("%-5d|", v); T("%05d", v);
        T("PE%03d: ", v); T("(0x%x)", (unsigned)v); T("%ld", (long)v * 100000L); T("%lu", (unsigned long)v); T("%.3d", v); T("%8.3d|", v); T("%*d", 6, v); T("%zu", (size_t)(unsigned)v);
        T("%c", (char)(32 + (v & 63))); T("(%c)", 'A' + (v & 15)); T("%3c|", 'q'); T("%-3c|", 'q');
    }
    for(unsigned i = 0; i < sizeof strs / sizeof *strs; i++) {
        const char *s = strs[i];
        T("%s", s); T("(%s)", s); T("%10s|", s); T("%-10s|", s); T("%.2s|", s); T("%.*s|", 3, s); T("%*s|", 7, s); T("%s:%d: --ERROR PE%03d: ", s, 12, 5); T("%s%%", s);
        { char small[6]; char small2[6]; int ra = snprintf(small, sizeof small, "[%s]", s); int rb = m_snprintf(small2, sizeof small2, "[%s]", s); n++; if(ra != rb || strcmp(small, small2)) { bad++; printf("MISMATCH trunc [%s]\n", s); } }
    }
    printf("printf model selftest: %d cases, %d mismatches\n", n, bad);
    return bad ? 1 : 0;
}
