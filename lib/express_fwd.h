/* File-scope forward declarations of the struct tags that include/express/scope.h first mentions inside the Scope_ union.
 * Semantically neutral in C; needed because CBMC's C front end otherwise treats a tag first seen inside a union member
 * declaration as a distinct incomplete type and mis-resolves t->u.type->body (measured: see DESIGN.md, E1 pitfalls). */
struct Procedure_; struct Function_; struct Rule_; struct Entity_; struct Schema_; struct Express_; struct Increment_; struct TypeHead_; struct TypeBody_;
struct Scope_; struct Expression_; struct Variable_; struct Statement_; struct Linked_List_; struct Hash_Table_; struct Symbol_; struct Query_; struct Where_;
