/* C-locale model of <ctype.h> for CBMC builds (glibc's table macros via __ctype_b_loc are opaque to CBMC).
 * Used only by goto-cc / IR builds, never by the native replay builds (those use the real libc). */
#ifndef VERIF_CTYPE_H
#define VERIF_CTYPE_H
static inline int isdigit(int c) { return c >= '0' && c <= '9'; }
static inline int isupper(int c) { return c >= 'A' && c <= 'Z'; }
static inline int islower(int c) { return c >= 'a' && c <= 'z'; }
static inline int isalpha(int c) { return isupper(c) || islower(c); }
static inline int isalnum(int c) { return isalpha(c) || isdigit(c); }
static inline int isxdigit(int c) { return isdigit(c) || (c >= 'a' && c <= 'f') || (c >= 'A' && c <= 'F'); }
static inline int isspace(int c) { return c == ' ' || (c >= 9 && c <= 13); }
static inline int isblank(int c) { return c == ' ' || c == '\t'; }
static inline int iscntrl(int c) { return (c >= 0 && c < 32) || c == 127; }
static inline int isprint(int c) { return c >= 32 && c < 127; }
static inline int isgraph(int c) { return c > 32 && c < 127; }
static inline int ispunct(int c) { return isgraph(c) && !isalnum(c); }
static inline int toupper(int c) { return islower(c) ? c - 'a' + 'A' : c; }
static inline int tolower(int c) { return isupper(c) ? c - 'A' + 'a' : c; }
#endif
