#!/usr/bin/env python3
"""vrun -- runner for the solver-based checks of /verif (see DESIGN.md).

Per harness:  build from /repo's current working tree  ->  CBMC witness twin (must FAIL)  ->
CBMC main query (all values within the stated bounds)  ->  on FAILURE: parse trace, write replay
file, build the real code natively (gcc/g++, ASan+UBSan) and replay  ->  known-finding matching
(re-query with the finding assumed away)  ->  evidence.

Exit status of a check: 0 held / only known findings, 1 VIOLATION (replayed), 2 machinery fault or
inconclusive (never printed as VIOLATION).
"""
import shutil, os, sys, re, json, time, subprocess, shutil, hashlib, tempfile, signal, resource
from concurrent.futures import ThreadPoolExecutor

VERIF = os.path.dirname(os.path.dirname(os.path.abspath(__file__)))
REPO = os.environ.get('VERIF_REPO', '/repo')
LIB = os.path.join(VERIF, 'lib')
VSTD = os.path.join(VERIF, 'vstd')

# ------------------------------------------------------------------ flags of the real build
def c_std():
    """C standard of the real build, read from /repo/CMakeLists.txt on every run."""
    try:
        txt = open(os.path.join(REPO, 'CMakeLists.txt')).read()
        m = re.search(r'set\s*\(\s*CMAKE_C_STANDARD\s+(\d+)\s*\)', txt)
        ext = re.search(r'set\s*\(\s*CMAKE_C_EXTENSIONS\s+ON', txt)
        if m:
            return '-std=%s%s' % ('gnu' if ext else 'c', m.group(1))
    except OSError:
        pass
    return '-std=gnu11'

def config_include():
    d = os.path.join(REPO, '_build', 'include')
    if os.path.exists(os.path.join(d, 'config.h')):
        return d
    return os.path.join(LIB, 'genconfig')

def repo_includes():
    inc = [os.path.join(REPO, 'include'), config_include(), os.path.join(REPO, 'include', 'express'),
           os.path.join(REPO, 'src', 'express'), os.path.join(REPO, 'src', 'express', 'generated'),
           os.path.join(REPO, 'include', 'exppp'), os.path.join(REPO, 'src', 'exppp'),
           os.path.join(REPO, 'src', 'exp2cxx'), os.path.join(REPO, 'src', 'exp2python', 'src'),
           os.path.join(REPO, 'src', 'cllazyfile'), os.path.join(REPO, 'include', 'cllazyfile'),
           os.path.join(REPO, 'src', 'clstepcore'), os.path.join(REPO, 'src', 'clutils'), os.path.join(REPO, 'src', 'cldai'),
           os.path.join(REPO, 'src', 'cleditor'),
           os.path.join(REPO, 'include', 'clstepcore'), os.path.join(REPO, 'include', 'clutils'),
           os.path.join(REPO, 'include', 'cldai'), os.path.join(REPO, 'include', 'cleditor')]
    return ['-I' + i for i in inc]

CLANG_IR = ['clang++-14', '-std=c++11', '-O1', '-fno-exceptions', '-fno-vectorize', '-fno-slp-vectorize',
            '-fno-unroll-loops', '-fno-threadsafe-statics', '-fno-builtin', '-fno-pic', '-fno-jump-tables', '-nostdinc++', '-w',
            '-S', '-emit-llvm', '-DVSTD=1', '-DNDEBUG']   # -DNDEBUG: the real build is RelWithDebInfo

# ------------------------------------------------------------------ process helpers
class Timeout(Exception):
    pass

def run(cmd, timeout=None, cwd=None, mem_gb=None, env=None, stdin=None):
    """run a command, return (rc, stdout+stderr, seconds, maxrss_kb). rc=None on timeout."""
    t0 = time.time()
    def pre():
        os.setsid()
        if mem_gb:
            b = int(mem_gb * (1 << 30))
            resource.setrlimit(resource.RLIMIT_AS, (b, b))
    p = subprocess.Popen(cmd, stdout=subprocess.PIPE, stderr=subprocess.STDOUT, cwd=cwd, preexec_fn=pre, env=env,
                         stdin=subprocess.DEVNULL if stdin is None else stdin)
    try:
        out, _ = p.communicate(timeout=timeout)
        rc = p.returncode
    except subprocess.TimeoutExpired:
        try:
            os.killpg(p.pid, signal.SIGKILL)
        except ProcessLookupError:
            pass
        out, _ = p.communicate()
        rc = None
    ru = resource.getrusage(resource.RUSAGE_CHILDREN)
    return rc, out.decode('utf-8', 'replace'), time.time() - t0, ru.ru_maxrss

def sha256(path):
    h = hashlib.sha256()
    with open(path, 'rb') as f:
        h.update(f.read())
    return h.hexdigest()[:16]

class Fault(Exception):
    """machinery fault: exit 2"""

# ------------------------------------------------------------------ harness description
class H:
    def __init__(self, name, engine, harness, repo_srcs=(), wrapper=None, extra=(), models=(), entry='harness',
                 defs=None, unwind=None, unwindset=None, cbmc=(), cflags=(), timeout=None, mem_gb=12,
                 bounds='', stubs=(), assumptions=(), out_of_claim='', samples=(), native=True, sanitize=True,
                 object_bits=None, backends=('cadical',), native_srcs=None, native_extra=(), tiers=('quick', 'thorough'),
                 include_src=(), irc_extra_cc=(), no_checks=False, native_cflags=(), witness_unwind=None, tv=True,
                 native_cc_defs=(), slice_formula=False, tracked=(), allow_undef=(), native_lib=(), unwind_is_violation=False, shadow_scope=False, pregen=None, irc_src_flags=None):
        self.name = name; self.engine = engine; self.harness = harness
        self.repo_srcs = list(repo_srcs); self.wrapper = wrapper; self.extra = list(extra); self.models = list(models)
        self.entry = entry
        self.defs = defs or {}          # {'quick': {...}, 'thorough': {...}} or flat dict
        self.unwind = unwind            # int or {'quick':n,'thorough':m}
        self.unwindset = unwindset or []
        self.cbmc = list(cbmc); self.cflags = list(cflags)
        self.timeout = timeout or {'quick': 900, 'thorough': 3600}   # roughly 3x the slowest measured default-budget query: a slower or busier machine must not turn a held check into exit 2
        self.mem_gb = mem_gb
        self.bounds = bounds; self.stubs = list(stubs); self.assumptions = list(assumptions); self.out_of_claim = out_of_claim
        self.samples = list(samples); self.native = native; self.sanitize = sanitize
        self.object_bits = object_bits; self.backends = backends
        self.native_srcs = native_srcs  # override repo_srcs for the native build (irc: real .cc files)
        self.native_extra = list(native_extra)
        self.tiers = tiers
        self.irc_extra_cc = list(irc_extra_cc)   # extra /verif .cc files translated through IR with the kernel (stubs)
        self.no_checks = no_checks
        self.native_cflags = list(native_cflags)
        self.witness_unwind = witness_unwind
        self.tv = tv
        self.native_cc_defs = list(native_cc_defs)
        self.slice_formula = slice_formula
        self.tracked = list(tracked); self.allow_undef = list(allow_undef)
        self.unwind_is_violation = unwind_is_violation   # a loop running past the unwind bound is itself the defect (replayed under ASan)
        self.irc_src_flags = dict(irc_src_flags or {})   # E2: extra clang flags for single repo sources (IR build only), e.g. renaming a function that a proven contract replaces
        self.pregen = pregen   # callable(wd): writes files generated from /repo's current source (e.g. a sliced function) into wd, which is on the include path
        self.shadow_scope = shadow_scope   # E1: use per-run copies of include/express/*.h in which Scope_.u is a struct (CBMC simplifier bug on unions)
        self.native_lib = list(native_lib)   # repo source dirs compiled once per run into a static archive for native builds

    def tier_val(self, v, tier):
        if isinstance(v, dict) and ('quick' in v or 'thorough' in v):
            return v.get(tier, v.get('quick'))
        return v

    def tier_defs(self, tier):
        d = self.defs
        if 'quick' in d or 'thorough' in d:
            return dict(d.get(tier, d.get('quick', {})))
        return dict(d)

# ------------------------------------------------------------------ building
def defflags(d):
    return ['-D%s=%s' % (k, v) if v is not None else '-D%s' % k for k, v in d.items()]

def vpath(p):
    return p if os.path.isabs(p) else os.path.join(VERIF, p)

def rpath(p):
    return p if os.path.isabs(p) else os.path.join(REPO, p)

def shadow_express_headers(wd):
    """Per-run copy of /repo/include/express with ONE mechanical change: the anonymous union `u` of struct Scope_ becomes a
    struct.  CBMC 6.11's expression simplifier returns a wrong value for `p->u.<non-first member>->field` (reduced
    reproducer in DESIGN.md); with separate storage per member the real code is unchanged for every use that reads the
    member it wrote (the library never puns through Scope_.u).  The native replay build uses the real headers."""
    d = os.path.join(wd, 'shadow'); e = os.path.join(d, 'express')
    if os.path.exists(e):
        return d
    os.makedirs(e, exist_ok=True)
    src = os.path.join(REPO, 'include', 'express')
    for f in os.listdir(src):
        if f.endswith('.h'):
            shutil.copy(os.path.join(src, f), os.path.join(e, f))
    # include/exppp/*.h reach the express headers through "../express/...": copy them too so that they resolve to the copies
    xs = os.path.join(REPO, 'include', 'exppp'); xd = os.path.join(d, 'exppp'); os.makedirs(xd, exist_ok=True)
    for f in os.listdir(xs):
        if f.endswith('.h'):
            shutil.copy(os.path.join(xs, f), os.path.join(xd, f))
    p = os.path.join(e, 'scope.h'); s = open(p).read()
    m = re.search(r'(struct Scope_ \{.*?)\bunion(\s*\{.*?\}\s*u;)', s, flags=re.S)
    if not m:
        raise Fault('shadow headers: struct Scope_ union not found in scope.h')
    s = s[:m.start()] + m.group(1) + 'struct /* was: union (verif shadow header) */' + m.group(2) + s[m.end():]
    open(p, 'w').write(s)
    return d

def build_goto_c(h, tier, wd, extra_defs, tag):
    """E1: goto-cc on real C units + harness."""
    std = c_std()
    sh = []
    if h.shadow_scope:
        d = shadow_express_headers(wd)
        sh = ['-I' + d, '-I' + os.path.join(d, 'express'), '-I' + os.path.join(d, 'exppp')]
    if h.pregen:
        h.pregen(wd)
    flags = sh + ['-I' + wd, std, '-DNDEBUG', '-DVERIF_CBMC=1', '-w', '-I' + os.path.join(LIB, 'cshadow')] + repo_includes() + ['-I' + REPO, '-I' + LIB, '-I' + os.path.dirname(vpath(h.harness))] + h.cflags
    defs = defflags(dict(h.tier_defs(tier), **extra_defs))
    objs = []
    for i, src in enumerate(h.repo_srcs):
        o = os.path.join(wd, '%s_%d.gb' % (tag, i))
        rc, out, _, _ = run(['goto-cc', '-c'] + flags + defs + [rpath(src), '-o', o])
        if rc != 0:
            raise Fault('goto-cc failed on %s:\n%s' % (src, out[-3000:]))
        objs.append(o)
    for i, src in enumerate([h.harness] + h.extra + h.models):
        o = os.path.join(wd, '%s_h%d.gb' % (tag, i))
        rc, out, _, _ = run(['goto-cc', '-c'] + flags + defs + [vpath(src), '-o', o])
        if rc != 0:
            raise Fault('goto-cc failed on %s:\n%s' % (src, out[-3000:]))
        objs.append(o)
    gb = os.path.join(wd, tag + '.gb')
    rc, out, _, _ = run(['goto-cc', '--function', h.entry] + objs + ['-o', gb])
    if rc != 0:
        raise Fault('goto-cc link failed:\n%s' % out[-3000:])
    return gb

def wrapper_api(wrapper):
    txt = open(vpath(wrapper)).read()
    return sorted(set(re.findall(r'\b(w_[A-Za-z0-9_]+)\s*\(', txt)))

def build_irc_c(h, tier, wd, extra_defs):
    """E2 steps 1-2: real .cc -> LLVM IR -> link -> internalize -> ir2c.  Returns path of generated C."""
    defs = defflags(dict(h.tier_defs(tier), **extra_defs))
    inc = ['-isystem', VSTD] + repo_includes() + ['-I' + LIB, '-I' + os.path.dirname(vpath(h.wrapper))]
    lls = []
    srcs = [rpath(s) for s in h.repo_srcs] + [vpath(s) for s in h.irc_extra_cc] + [vpath(h.wrapper)]
    def one(a):
        i, src = a
        ll = os.path.join(wd, 'u%d_%s.ll' % (i, re.sub(r'\W', '_', os.path.basename(src))))
        lang = ['-x', 'c++'] if src.endswith('.c') and False else []
        extra = []
        for k, fl in h.irc_src_flags.items():
            if src == rpath(k): extra = list(fl)
        cmd = CLANG_IR + h.cflags + defs + extra + inc + lang + [src, '-o', ll]
        if src.endswith('.c'):
            cmd = ['clang-14', c_std(), '-O1', '-fno-vectorize', '-fno-slp-vectorize', '-fno-unroll-loops', '-fno-builtin', '-w', '-S', '-emit-llvm', '-DNDEBUG'] + h.cflags + defs + repo_includes() + ['-I' + LIB] + [src, '-o', ll]
        rc, out, _, _ = run(cmd)
        if rc != 0:
            raise Fault('clang failed on %s:\n%s' % (src, out[-4000:]))
        return ll
    with ThreadPoolExecutor(8) as ex:
        lls = list(ex.map(one, enumerate(srcs)))
    allll = os.path.join(wd, 'all.ll')
    rc, out, _, _ = run(['llvm-link-14', '-S'] + lls + ['-o', allll])
    if rc != 0:
        raise Fault('llvm-link failed:\n%s' % out[-3000:])
    api = wrapper_api(h.wrapper)
    slim = os.path.join(wd, 'all.s.ll')
    rc, out, _, _ = run(['opt-14', '-S', '-internalize', '-internalize-public-api-list=' + ','.join(api), '-globaldce', allll, '-o', slim])
    if rc != 0:
        raise Fault('opt failed:\n%s' % out[-3000:])
    genc = os.path.join(wd, 'gen.c')
    rc, out, _, _ = run([sys.executable, os.path.join(LIB, 'ir2c.py'), slim, genc])
    if rc != 0:
        raise Fault('ir2c failed:\n%s' % out[-4000:])
    return genc, slim

def build_goto_irc(h, tier, wd, extra_defs, tag, genc):
    flags = ['-w', '-DVERIF_CBMC=1', '-DVERIF_IRC=1', '-I' + LIB, '-I' + os.path.dirname(vpath(h.harness))]
    defs = defflags(dict(h.tier_defs(tier), **extra_defs))
    objs = []
    for i, src in enumerate([genc, vpath(h.harness)] + [vpath(x) for x in h.extra + h.models]):
        o = os.path.join(wd, '%s_%d.gb' % (tag, i))
        rc, out, _, _ = run(['goto-cc', '-c'] + flags + defs + [src, '-o', o])
        if rc != 0:
            raise Fault('goto-cc failed on %s:\n%s' % (src, out[-3000:]))
        objs.append(o)
    gb = os.path.join(wd, tag + '.gb')
    rc, out, _, _ = run(['goto-cc', '--function', h.entry] + objs + ['-o', gb])
    if rc != 0:
        raise Fault('goto-cc link failed:\n%s' % out[-3000:])
    return gb

def call_graph_info(gb, entry):
    """(functions reachable from entry, reachable functions without body) from goto-instrument's call graph."""
    rc, out, _, _ = run(['goto-instrument', '--call-graph', gb], timeout=300)
    edges = {}
    for l in out.splitlines():
        m = re.match(r'^(\S+) -> (\S+)$', l.strip())
        if m:
            edges.setdefault(m.group(1), set()).add(m.group(2))
    seen = set([entry]); todo = [entry]
    while todo:
        f = todo.pop()
        for g in edges.get(f, ()):
            if g not in seen:
                seen.add(g); todo.append(g)
    rc, out2, _, _ = run(['goto-instrument', '--list-undefined-functions', gb], timeout=300)
    undef = set(l.strip() for l in out2.splitlines() if re.match(r'^[A-Za-z_][\w$]*$', l.strip()))
    return sorted(seen - undef), sorted(seen & undef)

ALLOWED_UNDEF = set('''__builtin_va_end __builtin_va_start gcc_builtin_va_arg __builtin_va_copy nondet_int nondet_uchar nondet_char nondet_long nondet_uint nondet_ulong nondet_double nondet_ptr nondet_bool
 __verif_undefined'''.split())

# ------------------------------------------------------------------ CBMC
CHECK_FLAGS = ['--pointer-overflow-check', '--signed-overflow-check', '--undefined-shift-check', '--bounds-check', '--pointer-check',
               '--div-by-zero-check', '--conversion-check']

def cbmc_cmd(h, tier, gb, witness, backend):
    uw = h.tier_val(h.unwind, tier)
    cmd = ['cbmc', gb, '--function', h.entry, '--drop-unused-functions', '--no-malloc-may-fail']
    if witness and h.witness_unwind is not None:
        uw = h.tier_val(h.witness_unwind, tier)
    if uw is not None:
        cmd += ['--unwind', str(uw)]
    us = h.tier_val(h.unwindset, tier)
    if us:
        cmd += ['--unwindset', ','.join(us)]
    if h.object_bits:
        cmd += ['--object-bits', str(h.object_bits)]
    if witness:
        cmd += ['--no-standard-checks', '--no-unwinding-assertions', '--no-built-in-assertions']
    else:
        cmd += ['--unwinding-assertions', '--trace', '--stop-on-fail']
        if h.no_checks:
            cmd += ['--no-standard-checks']
        elif h.engine == 'irc':
            # no --pointer-overflow-check for IR-derived C: LLVM computes addresses (getelementptr on a null or one-past pointer)
            # before the guarding branch, which is defined in IR but flagged by CBMC's pointer-arithmetic check
            cmd += ['--signed-overflow-check', '--undefined-shift-check']
        else:
            cmd += ['--pointer-overflow-check', '--signed-overflow-check', '--undefined-shift-check']
    if h.slice_formula:
        cmd += ['--slice-formula']
    cmd += [c for c in h.tier_val(h.cbmc, tier) or []] if isinstance(h.cbmc, dict) else h.cbmc
    if backend == 'cadical':
        cmd += ['--sat-solver', 'cadical']
    elif backend == 'kissat':
        cmd += ['--external-sat-solver', 'kissat']
    elif backend == 'z3':
        cmd += ['--z3']
    elif backend == 'cvc5':
        cmd += ['--cvc5']
    return cmd

RES_RE = re.compile(r'^\[(?P<id>[^\]]+)\] (?:line (?P<line>\d+) )?(?P<desc>.*): (?P<st>SUCCESS|FAILURE|UNKNOWN)$')

def parse_cbmc(out):
    res = {'props': [], 'verdict': None, 'symex_s': 0.0, 'solver_s': 0.0, 'traces': {}, 'vcc': None}
    for l in out.splitlines():
        m = RES_RE.match(l.strip())
        if m:
            res['props'].append((m.group('id'), m.group('desc'), m.group('st'), m.group('line')))
        if 'VERIFICATION SUCCESSFUL' in l:
            res['verdict'] = 'SUCCESS'
        elif 'VERIFICATION FAILED' in l:
            res['verdict'] = 'FAILED'
        m = re.match(r'^Runtime Symex: ([\d.eE+-]+)s', l)
        if m: res['symex_s'] += float(m.group(1))
        m = re.match(r'^Runtime decision procedure: ([\d.eE+-]+)s', l)
        if m: res['solver_s'] += float(m.group(1))
        m = re.match(r'^Generated (\d+) VCC\(s\), (\d+) remaining after simplification', l)
        if m: res['vcc'] = (int(m.group(1)), int(m.group(2)))
    # --stop-on-fail format: one counterexample, 'Violated property:' block
    m = re.search(r'^Violated property:\s*\n\s*file (\S+) function (\S+) line (\d+)[^\n]*\n\s*(.*)\n', out, flags=re.M)
    if m and not any(p[2] == 'FAILURE' for p in res['props']):
        pid = '%s.line%s' % (m.group(2), m.group(3))
        res['props'].append((pid, m.group(4).strip(), 'FAILURE', m.group(3)))
        cx = out.find('Counterexample:')
        res['traces'][pid] = out[cx if cx >= 0 else 0:m.start()]
    # traces
    parts = re.split(r'^Trace for ([^\n:]+):\s*$', out, flags=re.M)
    for i in range(1, len(parts) - 1, 2):
        res['traces'][parts[i].strip()] = parts[i + 1]
    return res

STATE_RE = re.compile(r'^State \d+ (?:file (?P<file>\S+) )?(?:function (?P<fn>\S+) )?(?:line (?P<line>\d+) )?(?:thread \d+)?\s*$')
ASSIGN_RE = re.compile(r'^\s+(?P<lhs>[A-Za-z_]\w*)(?:\[(?P<idx>\d+)[a-z]*\])?=(?P<val>.*?)(?: \((?P<bits>[01 ]+)\))?\s*$')

def trace_inputs(trace):
    """last assignment made inside verif_inputs_init to each input (element)."""
    vals = {}
    lines = trace.splitlines()
    i = 0; infn = None
    while i < len(lines):
        m = STATE_RE.match(lines[i])
        if m:
            infn = m.group('fn')
            # next non-dashed line is the assignment
            j = i + 1
            while j < len(lines) and (lines[j].startswith('---') or not lines[j].strip()):
                j += 1
            if j < len(lines) and infn == 'verif_inputs_init':
                a = ASSIGN_RE.match(lines[j])
                if a and a.group('lhs') not in ('verif_nd', 'verif_i'):
                    key = a.group('lhs') + ('[%s]' % a.group('idx') if a.group('idx') is not None else '')
                    bits = a.group('bits')
                    vals[key] = ('b' + bits.replace(' ', '')) if bits else a.group('val').strip()
            i = j
        i += 1
    return vals

def friendly(vals):
    """decode bit strings for display (unsigned)."""
    o = {}
    for k, v in vals.items():
        if v.startswith('b'):
            n = int(v[1:], 2)
            o[k] = n
        else:
            o[k] = v
    return o

# ------------------------------------------------------------------ native builds (replay + translation validation)
SAN = ['-fsanitize=address,undefined', '-fno-sanitize-recover=undefined', '-fno-omit-frame-pointer']

import threading
_nlib_lock = threading.Lock()
_nlib_cache = {}
def native_lib_archive(dirs, sanitize, scratch):
    """compile every .cc/.c of the given /repo source dirs (current working tree) once per run into a static archive."""
    key = (tuple(dirs), bool(sanitize))
    with _nlib_lock:
        if key in _nlib_cache:
            return _nlib_cache[key]
        d = os.path.join(scratch, 'nativelib_%s%s' % ('_'.join(x.replace('/', '-') for x in dirs), '_san' if sanitize else ''))
        os.makedirs(d, exist_ok=True)
        srcs = []
        for dd in dirs:
            full = rpath(dd)
            for f in sorted(os.listdir(full)):
                if f.endswith('.cc') or f.endswith('.c'):
                    txt = open(os.path.join(full, f), errors='replace').read()
                    if re.search(r'\bint\s+main\s*\(', txt):
                        continue      # test/benchmark programs living in the library directory
                    srcs.append(os.path.join(full, f))
        san = SAN if sanitize else []
        def one(a):
            i, sfile = a
            o = os.path.join(d, 'l%d.o' % i)
            if sfile.endswith('.c'):
                cmd = ['gcc', '-c', c_std(), '-DNDEBUG', '-w', '-g', '-O0'] + repo_includes() + san + [sfile, '-o', o]
            else:
                cmd = ['g++', '-c', '-std=c++11', '-w', '-g', '-O0', '-DNDEBUG', '-D_GLIBCXX_ASSERTIONS'] + repo_includes() + san + [sfile, '-o', o]   # libstdc++ bounds assertions: an out-of-range operator[] found by CBMC aborts natively instead of reading a neighbouring byte
            rc, out, _, _ = run(cmd)
            if rc != 0:
                raise Fault('native library build failed on %s:\n%s' % (sfile, out[-2000:]))
            return o
        with ThreadPoolExecutor(16) as ex:
            objs = list(ex.map(one, enumerate(srcs)))
        ar = os.path.join(d, 'libreal.a')
        rc, out, _, _ = run(['ar', 'rcs', ar] + objs)
        if rc != 0:
            raise Fault('ar failed: ' + out[-1000:])
        _nlib_cache[key] = ar
        return ar

def build_native_real(h, tier, wd, extra_defs, sanitize):
    """the REAL code: C units by gcc with the real flags / C++ units by g++ against the real libstdc++."""
    defs = defflags(dict(h.tier_defs(tier), **extra_defs)) + ['-DNATIVE=1']
    exe = os.path.join(wd, 'real' + ('_san' if sanitize else ''))
    san = SAN if sanitize else []
    objs = []
    if h.engine == 'c':
        if h.pregen:
            h.pregen(wd)
        flags = ['-I' + wd, c_std(), '-DNDEBUG', '-w', '-g', '-O0', '-fno-pie'] + repo_includes() + ['-I' + REPO, '-I' + LIB, '-I' + os.path.dirname(vpath(h.harness))] + h.cflags + h.native_cflags
        srcs = [rpath(s) for s in (h.native_srcs if h.native_srcs is not None else h.repo_srcs)] + [vpath(h.harness)] + [vpath(x) for x in h.extra + h.native_extra]
        for i, s in enumerate(srcs):
            o = os.path.join(wd, 'n%d%s.o' % (i, '_san' if sanitize else ''))
            rc, out, _, _ = run(['gcc', '-c'] + flags + san + defs + [s, '-o', o])
            if rc != 0:
                raise Fault('native gcc failed on %s:\n%s' % (s, out[-3000:]))
            objs.append(o)
        rc, out, _, _ = run(['gcc', '-no-pie', '-Wl,--unresolved-symbols=ignore-all'] + san + objs + ['-o', exe, '-lm'])
    else:
        cxxflags = ['-std=c++11', '-w', '-g', '-O0', '-DNDEBUG', '-D_GLIBCXX_ASSERTIONS'] + repo_includes() + ['-I' + LIB, '-I' + os.path.dirname(vpath(h.wrapper))] + h.native_cflags
        srcs = [rpath(s) for s in ((h.native_srcs if h.native_srcs is not None else h.repo_srcs) if not h.native_lib else [])] + [vpath(h.wrapper)] + [vpath(x) for x in h.native_extra]
        libs = [native_lib_archive(h.native_lib, sanitize, os.path.dirname(wd))] if h.native_lib else []
        def one(a):
            i, s = a
            o = os.path.join(wd, 'n%d%s.o' % (i, '_san' if sanitize else ''))
            if s.endswith('.c'):
                cmd = ['gcc', '-c', c_std(), '-DNDEBUG', '-w', '-g', '-O0'] + repo_includes() + ['-I' + LIB] + san + defs + [s, '-o', o]
            else:
                cmd = ['g++', '-c'] + cxxflags + san + defs + [s, '-o', o]
            rc, out, _, _ = run(cmd)
            if rc != 0:
                raise Fault('native g++ failed on %s:\n%s' % (s, out[-3000:]))
            return o
        with ThreadPoolExecutor(8) as ex:
            objs = list(ex.map(one, enumerate(srcs)))
        o = os.path.join(wd, 'nh%s.o' % ('_san' if sanitize else ''))
        rc, out, _, _ = run(['gcc', '-c', '-std=gnu11', '-w', '-g', '-O0', '-I' + LIB, '-I' + os.path.dirname(vpath(h.harness))] + san + defs + [vpath(h.harness), '-o', o])
        if rc != 0:
            raise Fault('native gcc failed on harness:\n%s' % out[-3000:])
        objs.append(o)
        rc, out, _, _ = run(['g++'] + san + objs + (['-Wl,--start-group'] + libs + ['-Wl,--end-group'] if libs else []) + ['-o', exe, '-lm'])
    if rc != 0:
        raise Fault('native link failed:\n%s' % out[-3000:])
    return exe

def build_native_gen(h, tier, wd, extra_defs, genc):
    """the generated C (ir2c output) compiled by gcc: for translation validation."""
    defs = defflags(dict(h.tier_defs(tier), **extra_defs)) + ['-DNATIVE=1', '-DNATIVE_GEN=1']
    exe = os.path.join(wd, 'gen_native')
    srcs = [genc, vpath(h.harness)] + [vpath(x) for x in h.extra + h.models]
    rc, out, _, _ = run(['gcc', '-std=gnu11', '-w', '-g', '-O0', '-fno-builtin', '-fno-pie', '-no-pie', '-Wl,--unresolved-symbols=ignore-all', '-I' + LIB, '-I' + os.path.dirname(vpath(h.harness))] + defs + srcs + ['-o', exe, '-lm'])
    if rc != 0:
        raise Fault('native build of generated C failed:\n%s' % out[-3000:])
    return exe

def write_inputs(path, vals, comment=''):
    with open(path, 'w') as f:
        if comment:
            for l in comment.splitlines():
                f.write('# %s\n' % l)
        for k in sorted(vals, key=lambda s: (re.sub(r'\[\d+\]', '', s), int(re.search(r'\[(\d+)\]', s).group(1)) if '[' in s else 0)):
            f.write('%s = %s\n' % (k, vals[k]))

def run_native(exe, inp, timeout=60):
    env = dict(os.environ, ASAN_OPTIONS='detect_leaks=0:abort_on_error=0:exitcode=99', UBSAN_OPTIONS='print_stacktrace=1:exitcode=98')
    rc, out, secs, _ = run([exe, inp], timeout=timeout, env=env)
    failed = re.findall(r'^CHECK-FAILED (.*)$', out, flags=re.M)
    san = bool(re.search(r'AddressSanitizer|runtime error:|UndefinedBehaviorSanitizer', out))
    crashed = rc is not None and (rc < 0 or rc in (98, 99, 134, 139))
    assume_false = rc == 77
    obs = [l for l in out.splitlines() if l.startswith('OBS ') or l.startswith('CHECK-FAILED') or l.startswith('END ')]
    return {'rc': rc, 'out': out, 'failed_checks': failed, 'sanitizer': san, 'crashed': crashed, 'timeout': rc is None,
            'assume_false': assume_false, 'obs': obs}

# ------------------------------------------------------------------ known findings
def load_known():
    p = os.path.join(VERIF, 'known_findings.json')
    if not os.path.exists(p):
        return []
    return json.load(open(p)).get('findings', [])

def kf_matches(kf, prop, hname, failing_descs, inputs):
    if kf.get('status') != 'open' or kf.get('property') != prop or kf.get('harness') != hname:
        return False
    rx = kf.get('check_regex')
    if rx and not any(re.search(rx, d) for d in failing_descs):
        return False
    pred = kf.get('input_pred')
    if pred:
        try:
            env = {'inp': friendly(inputs), 're': re}
            def arr(name, n=None):
                out = []; i = 0
                while '%s[%d]' % (name, i) in env['inp'] and (n is None or i < n):
                    out.append(env['inp']['%s[%d]' % (name, i)]); i += 1
                return out
            env['arr'] = arr
            env['s'] = lambda name, n=None: ''.join(chr(c & 0xff) for c in arr(name, n)).split('\0')[0]
            env['sx'] = lambda v, bits=32: v - (1 << bits) if v >= 1 << (bits - 1) else v
            if not eval(pred, env):
                return False
        except Exception as e:
            raise Fault('known-finding predicate error (%s): %s' % (kf.get('id'), e))
    return True

# ------------------------------------------------------------------ one harness
def run_backends(h, tier, gb, witness, timeout):
    """start the query on each configured back end in parallel; first verdict wins."""
    backends = h.tier_val(h.backends, tier) if isinstance(h.backends, dict) else h.backends
    if witness:
        backends = backends[:1]
    if len(backends) == 1:
        cmd = cbmc_cmd(h, tier, gb, witness, backends[0])
        rc, out, secs, rss = run(cmd, timeout=timeout, mem_gb=h.mem_gb)
        return backends[0], cmd, rc, out, secs, rss
    procs = []
    t0 = time.time()
    for b in backends:
        cmd = cbmc_cmd(h, tier, gb, witness, b)
        of = tempfile.TemporaryFile()
        p = subprocess.Popen(cmd, stdout=of, stderr=subprocess.STDOUT, preexec_fn=os.setsid, stdin=subprocess.DEVNULL)
        procs.append((b, cmd, p, of))
    winner = None
    while time.time() - t0 < timeout and winner is None:
        for b, cmd, p, of in procs:
            if p.poll() is not None:
                of.seek(0); out = of.read().decode('utf-8', 'replace')
                if 'VERIFICATION SUCCESSFUL' in out or 'VERIFICATION FAILED' in out:
                    winner = (b, cmd, p.returncode, out)
                    break
        if winner is None:
            if all(p.poll() is not None for _, _, p, _ in procs):
                break
            time.sleep(0.2)
    for b, cmd, p, of in procs:
        if p.poll() is None:
            try: os.killpg(p.pid, signal.SIGKILL)
            except ProcessLookupError: pass
            p.wait()
    secs = time.time() - t0
    if winner:
        return winner[0], winner[1], winner[2], winner[3], secs, 0
    # nobody produced a verdict
    b, cmd, p, of = procs[0]
    of.seek(0); out = of.read().decode('utf-8', 'replace')
    return b, cmd, (None if time.time() - t0 >= timeout else p.returncode), out, secs, 0

class HarnessResult:
    def __init__(self, h):
        self.h = h; self.status = None   # 'held' | 'violation' | 'fault' | 'inconclusive'
        self.msg = ''; self.queries = []; self.known = []; self.violations = []; self.info = {}
        self.witness_ok = False; self.tv = None

def check_harness(prop, h, tier, scratch, log):
    R = HarnessResult(h)
    wd = os.path.join(scratch, h.name); os.makedirs(wd, exist_ok=True)
    t_start = time.time()
    try:
        timeout = h.tier_val(h.timeout, tier)
        srcinfo = {}
        for s in h.repo_srcs + h.tracked:
            srcinfo[s] = sha256(rpath(s))
        R.info['sources'] = srcinfo
        R.info['bounds'] = h.bounds; R.info['defs'] = h.tier_defs(tier); R.info['unwind'] = h.tier_val(h.unwind, tier)
        R.info['stubs'] = h.stubs; R.info['assumptions'] = h.assumptions; R.info['out_of_claim'] = h.out_of_claim
        genc = None
        # ---------------- build (witness + main share the translated C)
        def build(extra_defs, tag):
            nonlocal genc
            if h.engine == 'c':
                return build_goto_c(h, tier, wd, extra_defs, tag)
            if genc is None:
                genc, slim = build_irc_c(h, tier, wd, {})
                R.info['ir_lines'] = sum(1 for _ in open(slim))
            return build_goto_irc(h, tier, wd, extra_defs, tag, genc)
        gb_w = build({'WITNESS': 1}, 'w')
        gb = build({}, 'm')
        reach, undef0 = call_graph_info(gb, h.entry)
        R.info['functions_encoded'] = [f for f in reach if not f.startswith('__CPROVER')]
        undef = [u for u in undef0 if u not in ALLOWED_UNDEF and not u.startswith('__CPROVER') and not u.startswith('nondet_')]
        R.info['undefined_functions'] = undef
        allowed = set(getattr(h, 'allow_undef', []) or [])
        bad = [] if h.allow_undef == ['*'] or h.allow_undef == list('*') else [u for u in undef if u not in allowed and u not in CBMC_BUILTIN]
        if bad:
            raise Fault('harness %s reaches functions without body (would be nondet stubs): %s' % (h.name, ', '.join(bad[:20])))
        # ---------------- translation validation (E2)
        if h.engine == 'irc' and h.tv and h.samples:
            exe_r = build_native_real(h, tier, wd, {}, False)
            exe_g = build_native_gen(h, tier, wd, {}, genc)
            agree = 0; dis = []
            for k, smp in enumerate(h.samples):
                ip = os.path.join(wd, 'sample%d.in' % k)
                write_inputs(ip, {a: (json.dumps(b) if isinstance(b, str) else str(b)) for a, b in smp.items()})
                a = run_native(exe_r, ip); b = run_native(exe_g, ip)
                if a['crashed'] or a['timeout']:
                    # the REAL build (g++/libstdc++ with _GLIBCXX_ASSERTIONS) crashes or hangs on a sample input: that is a concrete violation
                    # demonstrated on the real code, not a translation problem
                    rdir = os.path.join(VERIF, 'replay', prop); os.makedirs(rdir, exist_ok=True)
                    rfile = os.path.join(rdir, '%s-sample%d.in' % (h.name, k))
                    shutil.copyfile(ip, rfile)
                    R.violations.append({'failed': ['real build %s on sample input %s' % ('hangs' if a['timeout'] else 'crashes', json.dumps(smp))], 'inputs': smp, 'replay': rfile,
                                         'native': {'rc': a['rc'], 'failed_checks': a['failed_checks'], 'sanitizer': a['sanitizer'], 'crashed': a['crashed'], 'tail': a['out'][-800:]}})
                    R.status = 'violation'
                    return R
                if a['obs'] == b['obs'] and a['rc'] == b['rc']:
                    agree += 1
                else:
                    dis.append({'sample': smp, 'real': a['obs'][:10], 'gen': b['obs'][:10], 'rc': [a['rc'], b['rc']]})
            R.tv = {'samples': len(h.samples), 'agree': agree, 'disagreements': dis}
            if dis:
                raise Fault('translation validation mismatch on %s: %s' % (h.name, json.dumps(dis[:2])[:1500]))
        # ---------------- witness twin
        b, cmd, rc, out, secs, rss = run_backends(h, tier, gb_w, True, timeout)
        pw = parse_cbmc(out)
        wfail = [p for p in pw['props'] if 'WITNESS' in p[1] and p[2] == 'FAILURE']
        R.queries.append({'kind': 'witness', 'backend': b, 'wall_s': round(secs, 2), 'symex_s': pw['symex_s'], 'solver_s': pw['solver_s'],
                          'verdict': 'reachable' if wfail else ('timeout' if rc is None else 'NOT-reachable')})
        if rc is None:
            R.status = 'inconclusive'; R.msg = 'witness twin timed out after %ds' % timeout; return R
        if not wfail and h.unwind_is_violation:
            pass   # the end may be unreachable because a loop runs past the bound: the main query's unwinding assertion decides
        elif not wfail:
            raise Fault('vacuity: witness twin of %s did not fail (end of harness unreachable)\n%s' % (h.name, out[-1500:]))
        R.witness_ok = bool(wfail)
        # ---------------- main query (+ known-finding loop)
        excluded = {}
        known = load_known()
        for rnd in range(8):
            if excluded:
                gbx = build(dict(excluded), 'x%d' % rnd)
            else:
                gbx = gb
            b, cmd, rc, out, secs, rss = run_backends(h, tier, gbx, False, timeout)
            pm = parse_cbmc(out)
            q = {'kind': 'main', 'backend': b, 'wall_s': round(secs, 2), 'symex_s': pm['symex_s'], 'solver_s': pm['solver_s'],
                 'properties': len(pm['props']), 'failed': sum(1 for p in pm['props'] if p[2] == 'FAILURE'),
                 'vcc': pm['vcc'], 'excluded': sorted(excluded), 'cmd': ' '.join(os.path.basename(c) if c.startswith('/') else c for c in cmd)}
            R.queries.append(q)
            open(os.path.join(wd, 'cbmc_main_%d.log' % rnd), 'w').write(out)
            if rc is None:
                q['verdict'] = 'timeout'
                R.status = 'inconclusive'; R.msg = 'no verdict within %ds' % timeout; return R
            if pm['verdict'] is None:
                q['verdict'] = 'error'
                raise Fault('cbmc produced no verdict on %s (rc=%s):\n%s' % (h.name, rc, out[-2500:]))
            fails = [p for p in pm['props'] if p[2] == 'FAILURE']
            uw = [p for p in fails if 'unwinding assertion' in p[1]]
            if uw and not h.unwind_is_violation:
                q['verdict'] = 'unwind-too-small'
                raise Fault('unwinding assertion failed in %s: bound too small: %s' % (h.name, uw[0][0]))
            if pm['verdict'] == 'SUCCESS':
                q['verdict'] = 'holds'
                R.status = 'held' if not R.violations else 'violation'
                return R
            q['verdict'] = 'counterexample'
            # ---- counterexample: replay against the real code
            fid = fails[0][0]
            trace = pm['traces'].get(fid) or next(iter(pm['traces'].values()), '')
            inputs = trace_inputs(trace)
            descs = ['%s: %s' % (p[0], p[1]) for p in fails]
            if any('no body for callee' in p[1] or 'stub:' in p[1] or 'model:' in p[1] for p in fails):
                # an assertion of the translator / of a model about its own completeness is never a property violation
                raise Fault('encoding incomplete on %s: %s' % (h.name, descs[:3]))
            tag = hashlib.sha256(json.dumps(inputs, sort_keys=True).encode()).hexdigest()[:10]
            rdir = os.path.join(VERIF, 'replay', prop); os.makedirs(rdir, exist_ok=True)
            rfile = os.path.join(rdir, '%s-%s.in' % (h.name, tag))
            write_inputs(rfile, inputs, 'property %s harness %s tier %s\nfailed: %s\nreplay: bin/check %s --replay %s' % (prop, h.name, tier, '; '.join(descs[:6]), prop, rfile))
            confirmed = None; nat = None
            if h.native:
                exe = build_native_real(h, tier, wd, dict(excluded), h.sanitize)
                nat = run_native(exe, rfile)
                confirmed = bool(nat['failed_checks'] or nat['sanitizer'] or nat['crashed'] or nat['timeout'])
            builtin_only = all(re.search(r'pointer_arithmetic|overflow\.|pointer_primitives', p[0]) or 'pointer arithmetic' in p[1] for p in fails)
            ce = {'failed': descs[:8], 'inputs': friendly(inputs), 'replay': rfile,
                  'native': None if nat is None else {'rc': nat['rc'], 'failed_checks': nat['failed_checks'], 'sanitizer': nat['sanitizer'], 'crashed': nat['crashed'], 'tail': nat['out'][-800:]}}
            if confirmed is False:
                if builtin_only:
                    # UB-only reports (pointer arithmetic) that no sanitizer confirms: listed separately, never a VIOLATION
                    R.info.setdefault('unconfirmed_ub', []).append(ce)
                    R.status = 'inconclusive'; R.msg = 'UB-only counterexample not confirmed natively: ' + descs[0]
                    return R
                raise Fault('counterexample of %s does not reproduce on the real build (encoding or stub fault): %s\ninputs=%s\nnative=%s' % (h.name, descs[:3], friendly(inputs), (nat or {}).get('out', '')[-600:]))
            alld = descs + ((nat or {}).get('failed_checks') or [])
            hit = [k for k in known if kf_matches(k, prop, h.name, alld, inputs)]
            if hit:
                k = hit[0]
                if k['exclude_define'] in excluded:
                    raise Fault('known finding %s still matches after exclusion' % k['id'])
                R.known.append({'id': k['id'], 'text': k['text'], 'example': ce})
                excluded[k['exclude_define']] = 1
                continue
            R.violations.append(ce)
            R.status = 'violation'
            return R
        raise Fault('known-finding loop did not converge')
    except Fault as e:
        R.status = 'fault'; R.msg = str(e)
        return R
    except Exception as e:
        import traceback
        R.status = 'fault'; R.msg = 'runner exception: ' + traceback.format_exc()
        return R
    finally:
        R.info['wall_s'] = round(time.time() - t_start, 2)

CBMC_BUILTIN = set('''malloc calloc free realloc memcpy memmove memset memcmp strlen strcpy strncpy strcmp strncmp strcat strchr strrchr
 strdup abort exit fabs ceil floor isspace isdigit isalpha isalnum isupper islower toupper tolower isxdigit strtol atoi __assert_fail
 strncat strstr strtoul strtod atol isprint ispunct iscntrl isgraph fprintf printf sprintf snprintf puts fputs fputc putc putchar fwrite
 fopen fclose fflush getenv strerror strcasecmp strncasecmp'''.split())

# ------------------------------------------------------------------ a whole property
def run_property(prop, harnesses, tier, level_text, extra_assumptions=(), only=None, keep=False, jobs=None):
    t0 = time.time()
    seed = int(os.environ.get('VERIF_SEED', '0') or 0)
    scratch = os.environ.get('VERIF_SCRATCH') or tempfile.mkdtemp(prefix='verif.%s.' % prop, dir='/var/tmp')
    os.makedirs(scratch, exist_ok=True)
    hs = [h for h in harnesses if tier in h.tiers and (only is None or h.name in only)]
    if not hs:
        print('MACHINERY-FAULT property=%s: no harness selected (tier=%s only=%s)' % (prop, tier, sorted(only) if only else None))
        return 2
    results = []
    jobs = jobs or int(os.environ.get('VERIF_JOBS', '6'))
    try:
        with ThreadPoolExecutor(jobs) as ex:
            futs = [ex.submit(check_harness, prop, h, tier, scratch, None) for h in hs]
            for f in futs:
                results.append(f.result())
    finally:
        if not keep:
            shutil.rmtree(scratch, ignore_errors=True)
    return finish(prop, tier, seed, results, t0, level_text, extra_assumptions, partial=only is not None)

def finish(prop, tier, seed, results, t0, level_text, extra_assumptions=(), py_results=None, partial=False):
    viol = 0; fault = 0; incon = 0
    samples = []; evaluations = 0; nontriv = 0; funcs = set(); solver_s = 0.0; tvn = 0; tva = 0
    lines = []
    for R in results:
        h = R.h
        evaluations += len(R.queries)
        if R.witness_ok and R.status in ('held', 'violation'):
            nontriv += 1
        for q in R.queries:
            solver_s += (q.get('symex_s') or 0) + (q.get('solver_s') or 0)
        funcs.update(R.info.get('functions_encoded', []))
        if R.tv:
            tvn += R.tv['samples']; tva += R.tv['agree']
        for k in R.known:
            lines.append('KNOWN-FINDING: property=%s %s [%s]' % (prop, k['text'], k['id']))
        if R.status == 'violation':
            for v in R.violations:
                viol += 1
                lines.append('VIOLATION property=%s replay=%s' % (prop, v['replay']))
                lines.append('  harness=%s failed=%s inputs=%s' % (h.name, v['failed'][:3], json.dumps(v['inputs'])[:600]))
        elif R.status == 'fault':
            fault += 1
            lines.append('MACHINERY-FAULT property=%s harness=%s: %s' % (prop, h.name, R.msg[:3000]))
        elif R.status == 'inconclusive':
            incon += 1
            lines.append('INCONCLUSIVE property=%s harness=%s: %s' % (prop, h.name, R.msg))
        else:
            lines.append('held property=%s harness=%s queries=%d wall=%ss' % (prop, h.name, len(R.queries), R.info.get('wall_s')))
        samples.append({'harness': h.name, 'engine': h.engine, 'status': R.status, 'message': R.msg[:500],
                        'functions_encoded': R.info.get('functions_encoded', [])[:400],
                        'sources_sha256_16': R.info.get('sources'), 'bounds': R.info.get('bounds'), 'defines': R.info.get('defs'),
                        'unwind': R.info.get('unwind'), 'stubs': R.info.get('stubs'), 'assumptions': R.info.get('assumptions'),
                        'outside_claim': R.info.get('out_of_claim'), 'queries': R.queries, 'witness_twin_failed_as_required': R.witness_ok,
                        'translation_validation': R.tv, 'known_findings': R.known, 'violations': R.violations,
                        'unconfirmed_ub': R.info.get('unconfirmed_ub'), 'wall_s': R.info.get('wall_s')})
    if py_results:
        for s in py_results['samples']:
            samples.append(s)
        evaluations += py_results['evaluations']; nontriv += py_results['nontrivial']
        viol += py_results['violations']; fault += py_results.get('faults', 0); incon += py_results.get('inconclusive', 0)
        lines += py_results['lines']; solver_s += py_results.get('solver_s', 0)
    ev = {
        'property_id': prop, 'tier': tier, 'seed': seed, 'level': 'model_checking',
        'coverage': {
            'evaluations': evaluations, 'distinct_nontrivial': nontriv,
            'rule': 'one evaluation = one solver query (CBMC SAT/SMT back end, or CrossHair/Z3) over ALL input values within the harness bounds; '
                    'a harness counts as non-trivial only if its -DWITNESS twin (assert(0) at the end of the harness) was reported FAILED, i.e. the assumptions are satisfiable and the assertions reachable',
            'samples': samples, 'exhaustive': False,
            'functions_encoded_total': len(funcs), 'solver_seconds': round(solver_s, 2),
            'translation_validation': {'samples': tvn, 'agree': tva},
            'inconclusive': incon, 'machinery_faults': fault,
            'explanation': level_text,
        },
        'assumptions': list(extra_assumptions) + ['CBMC 6.11 (--no-malloc-may-fail: allocation failure out of scope)', 'ir2c translator and vstd model library for E2 harnesses (validated per run by native differential runs where samples exist)', 'bounds listed per harness; nothing outside them is claimed'],
        'wall_s': round(time.time() - t0, 2), 'violations': viol,
    }
    os.makedirs(os.path.join(VERIF, 'evidence'), exist_ok=True)
    # a run restricted with --only is a debugging run: its (partial) evidence goes to /var/tmp, the committed evidence file keeps the last full run
    with open(os.path.join('/var/tmp', 'evidence_%s_partial.json' % prop) if partial else os.path.join(VERIF, 'evidence', prop + '.json'), 'w') as f:
        json.dump(ev, f, indent=1, default=str)
    for l in lines:
        print(l)
    sys.stdout.flush()
    if viol:
        return 1
    if fault or incon:
        return 2
    return 0

# ------------------------------------------------------------------ replay of a stored counterexample
def replay(prop, mod, path, tier):
    """rebuild the real code natively and run the harness named in the replay file on its inputs."""
    base = os.path.basename(path)
    hs = [h for h in mod.HARNESSES if base.startswith(h.name + '-')]
    if not hs:
        print('no harness matches', base); return 2
    h = max(hs, key=lambda x: len(x.name))
    wd = tempfile.mkdtemp(prefix='verif.replay.', dir='/var/tmp')
    try:
        exe = build_native_real(h, tier, wd, {}, h.sanitize)
        nat = run_native(exe, path)
        print(nat['out'][-3000:])
        bad = bool(nat['failed_checks'] or nat['sanitizer'] or nat['crashed'] or nat['timeout'])
        print('REPLAY %s: %s' % (path, 'violation reproduced' if bad else 'no violation on this tree'))
        return 1 if bad else 0
    except Fault as e:
        print('MACHINERY-FAULT', e); return 2
    finally:
        shutil.rmtree(wd, ignore_errors=True)
