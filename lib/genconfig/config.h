#ifndef SCL_CF_H
#define SCL_CF_H

/**** Define statements for CMake ****/
#define SC_VERSION "0.9.1"
/* #undef HAVE_NDIR_H */
#define HAVE_STDINT_H 1
#define HAVE_SYS_STAT_H 1
#define HAVE_SYS_PARAM_H 1
/* #undef HAVE_SYSENT_H */
#define HAVE_UNISTD_H 1
#define HAVE_DIRENT_H 1
#define HAVE_STDBOOL_H 1
/* #undef HAVE_PROCESS_H */
/* #undef HAVE_IO_H */

/* #undef SC_TRACE_FPRINTF */

#define HAVE_ABS 1
#define HAVE_MEMCPY 1
#define HAVE_MEMMOVE 1
#define HAVE_GETOPT 1
#define HAVE_VSNPRINTF 1

#define HAVE_SSIZE_T 1

/* #undef HAVE_STD_THREAD */
/* #undef HAVE_STD_CHRONO */
/* #undef HAVE_NULLPTR */

#endif /* SCL_CF_H */
