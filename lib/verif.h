/* verif.h -- common harness discipline for /verif harnesses.
 *
 * One harness source serves three builds:
 *   (default)   CBMC: inputs are nondeterministic, ASSUME/CHECK are __CPROVER_assume/assert
 *   -DWITNESS   CBMC vacuity twin: CHECKs are dropped, VERIF_END() is assert(0) and MUST fail
 *   -DNATIVE    ordinary program: inputs are read from a replay file (argv[1]); used to
 *               (a) replay solver counterexamples against the real build and
 *               (b) validate the IR->C translation (same inputs, generated C vs. real g++ build).
 *
 * A harness declares its symbolic inputs once:
 *   #define VERIF_INPUTS(S,A)  A(unsigned char,tok,N) S(int,len) S(long,v)
 *   #include "verif.h"
 *   void harness(void){ VERIF_BEGIN(); ... ASSUME(..); ... CHECK(cond,"msg"); ... VERIF_END(); }
 */
#ifndef VERIF_H
#define VERIF_H

#ifndef VERIF_INPUTS
#error "define VERIF_INPUTS(S,A) before including verif.h"
#endif

#define VERIF_DECL_S(T,n) T n;
#define VERIF_DECL_A(T,n,k) T n[k];
VERIF_INPUTS(VERIF_DECL_S, VERIF_DECL_A)

#ifdef NATIVE
/* ------------------------------------------------------------------ native */
#include <stdio.h>
#include <stdlib.h>
#include <string.h>
static int verif_failed = 0;
static int verif_checks = 0;
#define ASSUME(c) do { if(!(c)) { printf("ASSUME-FALSE %s\n", #c); fflush(stdout); exit(77); } } while(0)
#define CHECK(c,msg) do { verif_checks++; if(!(c)) { printf("CHECK-FAILED %s\n", msg); fflush(stdout); verif_failed++; } } while(0)
#define OBS(...) do { printf("OBS " __VA_ARGS__); printf("\n"); } while(0)
#define VERIF_END() do { printf("END checks=%d failed=%d\n", verif_checks, verif_failed); fflush(stdout); } while(0)
struct verif_in_ent { const char *name; void *p; unsigned esz; unsigned cnt; };
#define VERIF_ENT_S(T,n) { #n, &n, sizeof(T), 1 },
#define VERIF_ENT_A(T,n,k) { #n, n, sizeof(T), k },
static struct verif_in_ent verif_in_tab[] = { VERIF_INPUTS(VERIF_ENT_S, VERIF_ENT_A) { 0, 0, 0, 0 } };
static void verif_store(struct verif_in_ent *e, unsigned idx, const char *val) {
    unsigned char *dst = (unsigned char *)e->p + (size_t)idx * e->esz;
    if(idx >= e->cnt) return;
    if(val[0] == 'b') {               /* bit string, MSB first */
        unsigned long long v = 0; unsigned n = 0; const char *q = val + 1;
        unsigned nb = e->esz * 8; unsigned len = (unsigned)strlen(q);
        /* take the last nb bits */
        if(len > nb) q += len - nb;
        for(; *q == '0' || *q == '1'; q++) { v = (v << 1) | (unsigned)(*q - '0'); n++; }
        memcpy(dst, &v, e->esz);      /* little endian host */
    } else {
        long long v = strtoll(val, 0, 0);
        memcpy(dst, &v, e->esz);
    }
}
static void verif_inputs_init(const char *path) {
    FILE *f = fopen(path, "r"); char line[4096];
    if(!f) { fprintf(stderr, "cannot open %s\n", path); exit(2); }
    while(fgets(line, sizeof line, f)) {
        char name[128]; char val[3900]; unsigned idx = 0; char *eq;
        if(line[0] == '#' || line[0] == '\n') continue;
        eq = strchr(line, '='); if(!eq) continue;
        *eq = 0;
        { char *br = strchr(line, '['); if(br) { idx = (unsigned)strtoul(br + 1, 0, 10); *br = 0; } }
        if(sscanf(line, "%127s", name) != 1) continue;
        { char *v = eq + 1; size_t l; while(*v == ' ') v++; l = strlen(v); while(l && (v[l-1] == '\n' || v[l-1] == ' ')) v[--l] = 0; strncpy(val, v, sizeof val - 1); val[sizeof val - 1] = 0; }
        for(struct verif_in_ent *e = verif_in_tab; e->name; e++) if(!strcmp(e->name, name)) {
            if(val[0] == '"') {        /* string literal with \xHH escapes fills consecutive elements */
                unsigned k = idx; const char *q = val + 1;
                while(*q && *q != '"' && k < e->cnt) {
                    char b[8]; unsigned c;
                    if(q[0] == '\\' && q[1] == 'x') { char h[3] = { q[2], q[3], 0 }; c = (unsigned)strtoul(h, 0, 16); q += 4; }
                    else if(q[0] == '\\' && q[1]) { c = (unsigned char)q[1]; q += 2; }
                    else { c = (unsigned char)*q++; }
                    snprintf(b, sizeof b, "%u", c); verif_store(e, k++, b);
                }
            } else verif_store(e, idx, val);
        }
    }
    fclose(f);
}
void harness(void);
static const char *verif_in_path;
#ifdef NATIVE_GEN
void __verif_global_ctors(void);
#define VERIF_BEGIN() do { __verif_global_ctors(); verif_inputs_init(verif_in_path); } while(0)
#else
#define VERIF_BEGIN() verif_inputs_init(verif_in_path)
#endif
int main(int argc, char **argv) {
    if(argc < 2) { fprintf(stderr, "usage: %s <inputs>\n", argv[0]); return 2; }
    verif_in_path = argv[1];
    harness();
    return verif_failed ? 1 : 0;
}
#else
/* -------------------------------------------------------------------- CBMC */
#define VERIF_INIT_S(T,n) { T verif_nd; n = verif_nd; }
#define VERIF_INIT_A(T,n,k) { for(unsigned verif_i = 0; verif_i < (k); verif_i++) { T verif_nd; n[verif_i] = verif_nd; } }
static void verif_inputs_init(void) { VERIF_INPUTS(VERIF_INIT_S, VERIF_INIT_A) }
#ifdef VERIF_IRC
void __verif_global_ctors(void);
#define VERIF_BEGIN() do { __verif_global_ctors(); verif_inputs_init(); } while(0)
#else
#define VERIF_BEGIN() verif_inputs_init()
#endif
#define ASSUME(c) __CPROVER_assume(c)
#define OBS(...) ((void)0)
#ifdef WITNESS
#define CHECK(c,msg) ((void)0)
#define VERIF_END() __CPROVER_assert(0, "WITNESS end of harness reachable")
#else
#define CHECK(c,msg) __CPROVER_assert(c, msg)
#define VERIF_END() ((void)0)
#endif
#endif

#endif
