#!/usr/bin/env python3
"""Prototype LLVM-14 textual IR (typed pointers) -> C translator for CBMC.
Scope: -O1 -fno-exceptions IR of C/C++ kernels. Prototype quality."""
import re, sys

LIBC = {'strchr','strcmp','strlen','strncmp','strcpy','strncpy','strcat','memcmp','isspace','isdigit','isalpha','isalnum',
        'isupper','islower','toupper','tolower','isxdigit','sprintf','snprintf','sscanf','malloc','free','abort','exit','strrchr',
        'realloc','calloc','memchr','strtoull','strtol','atoi','puts','printf','fprintf','strcasecmp','strdup',
        'memset','memcpy','memmove','strstr','strncat','strtod','atol','strtoul','fputs','fputc','putchar','fflush','strncasecmp','strpbrk','strspn','strcspn','fabs','ceil','floor','pow','sqrt','vsnprintf','vsprintf','vfprintf'}

class T:  # type node
    def __init__(s, k, **kw): s.k=k; s.__dict__.update(kw)
    def __repr__(s): return tstr(s)

def tstr(t):
    k=t.k
    if k=='int': return 'i%d'%t.bits
    if k in('float','double','void','label','metadata','opaque'): return k
    if k=='ptr': return tstr(t.to)+'*'
    if k=='arr': return '[%d x %s]'%(t.n,tstr(t.el))
    if k=='named': return '%'+t.name
    if k=='struct': return ('<{%s}>' if t.packed else '{%s}')%', '.join(map(tstr,t.fields))
    if k=='func': return '%s (%s)'%(tstr(t.ret), ', '.join(list(map(tstr,t.args))+(['...'] if t.va else [])))
    return '?'

class P:
    """tokenizer/parser over a string"""
    def __init__(s, text): s.t=text; s.i=0
    def ws(s):
        while s.i<len(s.t) and s.t[s.i] in ' \t': s.i+=1
    def peek(s, n=1): s.ws(); return s.t[s.i:s.i+n]
    def eat(s, lit):
        s.ws()
        if s.t.startswith(lit, s.i): s.i+=len(lit); return True
        return False
    def expect(s, lit):
        if not s.eat(lit): raise SyntaxError('expected %r at %r'%(lit, s.t[s.i:s.i+60]))
    def word(s):
        s.ws(); m=re.compile(r'[A-Za-z_][A-Za-z0-9_.]*').match(s.t, s.i)
        if not m: return None
        s.i=m.end(); return m.group(0)
    def peekword(s):
        j=s.i; w=s.word(); s.i=j; return w
    def ident(s):  # %name or @name, possibly quoted
        s.ws(); c=s.t[s.i]
        assert c in '%@', s.t[s.i:s.i+40]
        s.i+=1
        if s.t[s.i]=='"':
            j=s.t.index('"', s.i+1); n=s.t[s.i+1:j]; s.i=j+1
        else:
            m=re.compile(r'[-A-Za-z0-9_.$]+').match(s.t, s.i); n=m.group(0); s.i=m.end()
        return c+n
    def type(s):
        s.ws(); t=None
        if s.eat('void'): t=T('void')
        elif s.eat('double'): t=T('double')
        elif s.eat('float'): t=T('float')
        elif s.eat('label'): t=T('label')
        elif s.eat('metadata'): t=T('metadata')
        elif s.eat('opaque'): t=T('opaque')
        elif s.peek()=='i' and re.compile(r'i\d+').match(s.t,s.i):
            m=re.compile(r'i(\d+)').match(s.t,s.i); s.i=m.end(); t=T('int',bits=int(m.group(1)))
        elif s.peek()=='%': t=T('named',name=s.ident()[1:])
        elif s.peek()=='[':
            s.expect('['); m=re.compile(r'\s*(\d+)\s*x').match(s.t,s.i); s.i=m.end(); el=s.type(); s.expect(']'); t=T('arr',n=int(m.group(1)),el=el)
        elif s.peek(2)=='<{' or s.peek()=='{':
            packed=s.eat('<'); s.expect('{'); fs=[]
            if not s.eat('}'):
                while True:
                    fs.append(s.type())
                    if s.eat('}'): break
                    s.expect(',')
            if packed: s.expect('>')
            t=T('struct',fields=fs,packed=packed)
        else: raise SyntaxError('type at %r'%s.t[s.i:s.i+60])
        while True:
            s.ws()
            if s.eat('*'): t=T('ptr',to=t)
            elif s.peek()=='(' :
                # function type
                s.expect('('); args=[]; va=False
                if not s.eat(')'):
                    while True:
                        if s.eat('...'): va=True
                        else: args.append(s.type())
                        if s.eat(')'): break
                        s.expect(',')
                t=T('func',ret=t,args=args,va=va)
            else: break
        return t

ATTRS=set('''noundef nonnull noalias nocapture readonly readnone writeonly signext zeroext returned inreg nest immarg nofree
 dereferenceable dereferenceable_or_null align sret byval inalloca swiftself nosync'''.split())


def skip_attrs(p):
    while True:
        w=p.peekword()
        if w in ATTRS:
            p.word()
            if w=='align':
                m=re.compile(r'\s*\d+').match(p.t,p.i)
                if m: p.i=m.end()
            if p.peek()=='(':
                depth=0; j=p.i
                while True:
                    if p.t[j]=='(': depth+=1
                    elif p.t[j]==')':
                        depth-=1
                        if depth==0: break
                    j+=1
                p.i=j+1
        else: break

class Mod:
    def __init__(s):
        s.named={}; s.globals={}; s.funcs={}; s.decls={}; s.anon={}; s.order=[]

def cname(n):
    n=n[1:] if n[0] in '%@' else n
    return re.sub(r'[^A-Za-z0-9_]', '_', n)

class Gen:
    def __init__(s, mod): s.m=mod; s.out=[]; s.typedefs=[]; s.emitted=set()
    # ---- types
    def resolve(s,t):
        while t.k=='named': t=s.m.named[t.name]
        return t
    def ct(s,t):
        k=t.k
        if k=='int':
            b=t.bits
            if b==1: return 'unsigned char'
            for w,n in ((8,'unsigned char'),(16,'unsigned short'),(32,'unsigned int'),(64,'unsigned long')):
                if b<=w: return n
            return 'unsigned __int128'
        if k=='double': return 'double'
        if k=='float': return 'float'
        if k=='void': return 'void'
        if k=='ptr':
            if t.to.k=='func': return s.fptr(t.to)
            if t.to.k in('void','opaque'): return 'void*'
            return s.ct(t.to)+'*'
        if k=='named':
            if s.m.named[t.name].k=='opaque': return 'struct S_'+cname(t.name)
            return 'struct S_'+cname(t.name)
        if k in('struct','arr'):
            key=tstr(t)
            if key not in s.m.anon:
                s.m.anon[key]=('A%d'%len(s.m.anon), t)
            return 'struct '+s.m.anon[key][0]
        if k=='func': return s.fptr(t)[:-1] if False else 'void'
        raise Exception('ct '+tstr(t))
    def fptr(s,ft):
        key='FP:'+tstr(ft)
        if key not in s.m.anon:
            s.m.anon[key]=('FP%d'%len(s.m.anon), ft)
        return s.m.anon[key][0]
    def emit_types(s):
        # iterate until closure
        lines=[]; done=set()
        lines.append('/* forward decls */')
        for n,t in s.m.named.items(): lines.append('struct S_%s;'%cname(n))
        body=[]
        def deps(t, acc):
            if t.k=='named': acc.append(('N',t.name))
            elif t.k=='struct':
                acc.append(('A',tstr(t)))
            elif t.k=='arr': acc.append(('A',tstr(t)))
        emitted=set(); out=[]
        def emit_struct(name, t):
            if t.k=='opaque': return
            if t.k=='arr':
                fl=['  %s a[%d];'%(s.ct(t.el), max(t.n,1))]
            else:
                fl=['  %s f%d;'%(s.ct(f),i) for i,f in enumerate(t.fields)] or ['  char __empty;']
            out.append('struct %s {\n%s\n}%s;'%(name,'\n'.join(fl),' __attribute__((packed))' if getattr(t,'packed',False) else ''))
        def visit(key):
            if key in emitted: return
            emitted.add(key)
            kind,name=key
            if kind=='N': t=s.m.named[name]; cn='S_'+cname(name)
            else:
                s.ct(P(name).type()) if name not in s.m.anon else None
                cn,t=s.m.anon[name]
            if t.k=='func': return
            subs=[t.el] if t.k=='arr' else (t.fields if t.k=='struct' else [])
            for f in subs:
                ff=f
                if ff.k in('struct','arr'): s.ct(ff); visit(('A',tstr(ff)))
                elif ff.k=='named': visit(('N',ff.name))
                elif ff.k=='ptr': s.ct(ff)
            emit_struct(cn,t)
        changed=True
        while changed:
            before=len(s.m.anon)
            for n in list(s.m.named): visit(('N',n))
            for k in list(s.m.anon):
                if not k.startswith('FP:'): visit(('A',k))
            changed=len(s.m.anon)!=before
        fps=[]
        for k,(nm,ft) in s.m.anon.items():
            if k.startswith('FP:'):
                args=(', '.join([s.ct(a) for a in ft.args]+(['...'] if (ft.va and ft.args) else [])) or ('' if ft.va else 'void'))
                fps.append('typedef %s (*%s)(%s);'%(s.ct(ft.ret),nm,args))
        # function pointer typedefs may reference structs by value -> after forward decls is fine for pointers only
        return lines, fps, out

def split_top(s, sep=','):
    out=[]; depth=0; cur=''; q=False
    for ch in s:
        if ch=='"': q=not q
        if not q:
            if ch in '([{<': depth+=1
            elif ch in ')]}>': depth-=1
            elif ch==sep and depth==0: out.append(cur); cur=''; continue
        cur+=ch
    if cur.strip(): out.append(cur)
    return out

class FuncTx:
    def __init__(s, g, name, ret, params, lines):
        s.g=g; s.name=name; s.ret=ret; s.params=params; s.lines=lines
        s.vtypes={}; s.code=[]; s.blocks=[]; s.tmpn=0
    def val(s, p, t):
        """parse a value of type t from parser p -> C expr"""
        g=s.g; p.ws()
        rt=g.resolve(t) if t.k=='named' else t
        c=p.peek()
        if c=='%':
            n=p.ident(); return 'v_'+cname(n)
        if c=='@':
            n=p.ident(); cn=cname(n)
            if n[1:] in s.g.m.funcs or n[1:] in s.g.m.decls:
                return '((%s)&%s)'%(g.ct(t),cn) if t.k=='ptr' else cn
            return '((%s)&%s)'%(g.ct(t),cn)
        w=p.peekword()
        if w in('null',): p.word(); return '((%s)0)'%g.ct(t)
        if w in('undef','poison','zeroinitializer'):
            p.word()
            if rt.k in('struct','arr'): return '((%s){0})'%g.ct(t)
            return '((%s)0)'%g.ct(t)
        if w in('true','false'): p.word(); return '1' if w=='true' else '0'
        if w in('getelementptr','bitcast','inttoptr','ptrtoint','trunc','zext','sext','add','sub','and','or','mul','shl','lshr','icmp','select'):
            return s.constexpr(p)
        m=re.compile(r'-?\d+(\.\d+(e[+-]?\d+)?)?').match(p.t,p.i)
        if rt.k in('double','float'):
            mh=re.compile(r'0x[0-9A-Fa-f]+').match(p.t,p.i)
            if mh:
                p.i=mh.end()
                import struct as _st, math as _m
                _v=_st.unpack('<d',_st.pack('<Q',int(mh.group(0),16)))[0]
                if _m.isinf(_v): return '(-__builtin_inf())' if _v<0 else '(__builtin_inf())'
                if _m.isnan(_v): return '(__builtin_nan(""))'
                return '(%s)'%_v.hex()
            p.i=m.end(); return m.group(0)
        if m:
            p.i=m.end(); v=int(m.group(0)); bits=rt.bits if rt.k=='int' else 64
            v&=(1<<bits)-1
            return '((%s)%dUL)'%(g.ct(t),v)
        if c=='{' or c=='[' or p.peek(2)=='<{':
            return s.aggconst(p,t)
        if c=='c' and p.t[p.i+1]=='"':
            return s.aggconst(p,t)
        raise SyntaxError('value at %r'%p.t[p.i:p.i+80])
    def aggconst(s,p,t):
        g=s.g; rt=g.resolve(t); p.ws()
        if p.t.startswith('c"',p.i):
            j=p.i+2; bs=[]
            while p.t[j]!='"':
                if p.t[j]=='\\' and p.t[j+1]=='\\': bs.append(92); j+=2
                elif p.t[j]=='\\': bs.append(int(p.t[j+1:j+3],16)); j+=3
                else: bs.append(ord(p.t[j])); j+=1
            p.i=j+1
            return '{{%s}}'%','.join(map(str,bs))
        packed=p.eat('<')
        if p.eat('{'): close='}'
        else: p.expect('['); close=']'
        els=[]
        if not p.eat(close):
            while True:
                et=p.type(); els.append(s.val(p,et))
                if p.eat(close): break
                p.expect(',')
        if packed: p.expect('>')
        if rt.k=='arr': return '{{%s}}'%','.join(els)
        return '{%s}'%','.join(els)
    def constexpr(s,p):
        g=s.g; op=p.word()
        if op=='getelementptr':
            p.eat('inbounds'); p.expect('('); bt=p.type(); p.expect(','); pt=p.type(); base=s.val(p,pt); idx=[]
            while p.eat(','):
                p.eat('inrange'); it=p.type(); idx.append(s.val(p,it))
            p.expect(')')
            e,rt=s.gep(base,bt,idx); return e
        if op in('bitcast','inttoptr','ptrtoint','trunc','zext','sext'):
            p.expect('('); ft=p.type(); v=s.val(p,ft); p.expect('to'); tt=p.type(); p.expect(')')
            return s.cast(op,v,ft,tt)
        if op in('add','sub','and','or','mul','shl','lshr'):
            while p.peekword() in('nuw','nsw','exact'): p.word()
            p.expect('('); t1=p.type(); a=s.val(p,t1); p.expect(','); t2=p.type(); b=s.val(p,t2); p.expect(')')
            return s.binop(op,a,b,t1)
        raise SyntaxError('constexpr '+op)
    def cast(s,op,v,ft,tt):
        g=s.g
        if op=='bitcast':
            rf=g.resolve(ft); rtt=g.resolve(tt)
            if rf.k=='ptr' or rtt.k=='ptr': return '((%s)%s)'%(g.ct(tt),v)
            return '(*(%s*)&(%s){%s})'%(g.ct(tt),g.ct(ft),v)
        if op=='inttoptr': return '((%s)(unsigned long)%s)'%(g.ct(tt),v)
        if op=='ptrtoint': return '((%s)(unsigned long)%s)'%(g.ct(tt),v)
        if op=='trunc': return s.mask('((%s)%s)'%(g.ct(tt),v),tt)
        if op=='zext': return '((%s)%s)'%(g.ct(tt),v)
        if op=='sext': return s.mask('((%s)%s)'%(g.ct(tt),s.signed(v,ft)),tt)
        if op in('sitofp',): return '((%s)%s)'%(g.ct(tt),s.signed(v,ft))
        if op in('uitofp','fpext','fptrunc'): return '((%s)%s)'%(g.ct(tt),v)
        if op=='fptosi': return s.mask('((%s)(%s)%s)'%(g.ct(tt),s.sct(tt),v),tt)
        if op=='fptoui': return '((%s)%s)'%(g.ct(tt),v)
        raise Exception(op)
    def sct(s,t):
        b=s.g.resolve(t).bits
        return {1:'signed char',8:'signed char',16:'short',32:'int',64:'long'}.get(b) or ('int' if b<32 else 'long')
    def signed(s,v,t):
        b=s.g.resolve(t).bits
        if b in(8,16,32,64): return '((%s)%s)'%(s.sct(t),v)
        if b==1: return '((signed char)(%s?-1:0))'%v
        w=32 if b<32 else 64
        return '(((%s)(%s<<%d))>>%d)'%(s.sct(t),'((%s)%s)'%('unsigned int' if w==32 else 'unsigned long',v),w-b,w-b)
    def mask(s,e,t):
        b=s.g.resolve(t).bits
        if b in(8,16,32,64): return e
        return '((%s)(%s & %dUL))'%(s.g.ct(t),e,(1<<b)-1)
    def binop(s,op,a,b,t):
        g=s.g; ct=g.ct(t); rt=g.resolve(t)
        if rt.k in('double','float'):
            o={'fadd':'+','fsub':'-','fmul':'*','fdiv':'/'}[op]; return '(%s %s %s)'%(a,o,b)
        if op in('add','sub','mul','and','or','xor'):
            o={'add':'+','sub':'-','mul':'*','and':'&','or':'|','xor':'^'}[op]
            return s.mask('((%s)(%s %s %s))'%(ct,a,o,b),t)
        if op=='shl': return s.mask('((%s)(%s << %s))'%(ct,a,b),t)
        if op=='lshr': return '((%s)(%s >> %s))'%(ct,a,b)
        if op=='ashr': return s.mask('((%s)(%s >> %s))'%(ct,s.signed(a,t),b),t)
        if op=='udiv': return '((%s)(%s / %s))'%(ct,a,b)
        if op=='urem': return '((%s)(%s %% %s))'%(ct,a,b)
        if op=='sdiv': return s.mask('((%s)(%s / %s))'%(ct,s.signed(a,t),s.signed(b,t)),t)
        if op=='srem': return s.mask('((%s)(%s %% %s))'%(ct,s.signed(a,t),s.signed(b,t)),t)
        raise Exception(op)
    def gep(s,base,bt,idx):
        """base: C expr of type bt*; idx: list of C exprs; returns (&expr, resulttype)"""
        g=s.g; e='(%s)[(long)%s]'%(base,s.signed_idx(idx[0])); t=bt
        for i in idx[1:]:
            rt=g.resolve(t)
            if rt.k=='struct':
                n=int(re.search(r'(\d+)UL\)$',i).group(1)); e='%s.f%d'%(e,n); t=rt.fields[n]
            elif rt.k=='arr':
                e='%s.a[(long)%s]'%(e,s.signed_idx(i)); t=rt.el
            else: raise Exception('gep into '+tstr(rt))
        return '(&%s)'%e, t
    def signed_idx(s,i):
        m=re.match(r'\(\((unsigned \w+)\)(\d+)UL\)$',i)
        if m:
            w={'unsigned char':8,'unsigned short':16,'unsigned int':32,'unsigned long':64}[m.group(1)]; v=int(m.group(2))
            if v>=1<<(w-1): v-=1<<w
            return str(v)
        return '(long)'+i  # i64 indexes; i32 idx are sign-extended by clang already in most cases
    def decl(s,name,t):
        s.vtypes['v_'+cname(name)]=t
    def translate(s):
        g=s.g; body=[]; cur=None; blocks={}; order=[];
        # split into blocks
        label='entry0'; blocks[label]=[]; order.append(label); first=True; pending=None
        for ln in s.lines:
            l=ln.split(' ;')[0].rstrip() if not ln.lstrip().startswith(';') else ''
            m=re.match(r'^([-A-Za-z0-9_.$"]+):',ln)
            if m:
                label=m.group(1).strip('"'); blocks[label]=[]; order.append(label); continue
            if l.strip():
                if pending is not None:
                    pending+=' '+l.strip()
                    if l.strip().startswith(']'): blocks[label].append(re.sub(r'\]\s*,\s*!.*$', ']', pending)); pending=None   # the closing bracket may carry metadata (', !llvm.loop !N')
                    continue
                if l.strip().startswith('switch ') and not l.rstrip().endswith(']'):
                    pending=l.strip(); continue
                blocks[label].append(l.strip())
        # first pass: phis -> per-edge copies
        phis={}  # (pred,succ)-> list of (dst,type,valtext)
        for lb in order:
            for l in blocks[lb]:
                m=re.match(r'(%[-\w.$"]+) = phi (.*)$',l)
                if not m: continue
                p=P(m.group(2)); t=p.type(); s.decl(m.group(1),t)
                while True:
                    p.expect('['); j=p.i
                    # value until comma at top-level
                    rest=p.t[p.i:]; parts=split_top(rest[:rest.index(']')] if False else rest)
                    vtxt=parts[0]; p.i+=len(vtxt); p.expect(','); pred=p.ident()[1:].strip('"'); p.expect(']')
                    if pred not in blocks: pred='entry0'
                    phis.setdefault((pred,lb),[]).append((m.group(1),t,vtxt))
                    if not p.eat(','): break
        code=[]
        def edge(pred,succ):
            lst=phis.get((pred,succ),[])
            if not lst: return 'goto L_%s;'%cname(succ)
            st=[]
            for i,(d,t,v) in enumerate(lst):
                st.append('%s phi_t%d = %s;'%(g.ct(t),i,s.val(P(v),t)))
            for i,(d,t,v) in enumerate(lst):
                st.append('v_%s = phi_t%d;'%(cname(d),i))
            return '{ %s goto L_%s; }'%(' '.join(st),cname(succ))
        s.defs={}
        for lb in order:
            for l in blocks[lb]:
                mm=re.match(r'(%[-\w.$"]+) = (.*)$',l)
                if mm: s.defs[mm.group(1)]=mm.group(2)
        for lb in order:
            code.append('L_%s: ;'%cname(lb))
            for l in blocks[lb]:
                code.extend(s.instr(l,lb,edge))
        return code
    def instr(s,l,lb,edge):
        g=s.g; dst=None
        m=re.match(r'(%[-\w.$"]+) = (.*)$',l)
        if m: dst=m.group(1); l=m.group(2)
        p=P(l); op=p.word()
        while op in('tail','musttail','notail'): op=p.word()
        def setv(t,e):
            s.decl(dst,t); return ['v_%s = %s;'%(cname(dst),e)]
        if op=='phi': return []
        if op=='alloca':
            t=p.type(); s.decl(dst,T('ptr',to=t)); nm='al_'+cname(dst); s.vtypes[nm]=('raw',t)
            return ['v_%s = &%s;'%(cname(dst),nm)]
        if op=='load':
            p.eat('volatile'); t=p.type(); p.expect(','); pt=p.type(); v=s.val(p,pt); return setv(t,'*%s'%v)
        if op=='store':
            p.eat('volatile'); t=p.type(); v=s.val(p,t); p.expect(','); pt=p.type(); a=s.val(p,pt); return ['*%s = %s;'%(a,v)]
        if op=='getelementptr':
            p.eat('inbounds'); bt=p.type(); p.expect(','); pt=p.type(); base=s.val(p,pt); idx=[]
            while p.eat(','):
                it=p.type(); iv=s.val(p,it)
                if g.resolve(it).bits==32 and not re.match(r'\(\(unsigned',iv): iv='((long)(int)%s)'%iv
                idx.append(iv)
            e,rt=s.gep(base,bt,idx); return setv(T('ptr',to=rt),e)
        if op in('bitcast','inttoptr','ptrtoint','trunc','zext','sext','sitofp','uitofp','fptosi','fptoui','fpext','fptrunc'):
            ft=p.type(); v=s.val(p,ft); p.expect('to'); tt=p.type(); return setv(tt,s.cast(op,v,ft,tt))
        if op in('add','sub','mul','and','or','xor','shl','lshr','ashr','udiv','sdiv','urem','srem','fadd','fsub','fmul','fdiv'):
            while p.peekword() in('nuw','nsw','exact','fast','nnan','ninf','nsz','arcp','contract','afn','reassoc'): p.word()
            t=p.type(); a=s.val(p,t); p.expect(','); b=s.val(p,t); return setv(t,s.binop(op,a,b,t))
        if op=='fneg':
            t=p.type(); a=s.val(p,t); return setv(t,'(-%s)'%a)
        if op=='icmp':
            cc=p.word(); t=p.type(); a=s.val(p,t); p.expect(','); b=s.val(p,t); rt=g.resolve(t)
            o={'eq':'==','ne':'!=','ugt':'>','uge':'>=','ult':'<','ule':'<=','sgt':'>','sge':'>=','slt':'<','sle':'<='}[cc]
            if rt.k=='ptr':
                if cc in('eq','ne'): e='(%s %s %s)'%(a,o,b)
                else: e='((unsigned long)%s %s (unsigned long)%s)'%(a,o,b)
            elif cc[0]=='s': e='(%s %s %s)'%(s.signed(a,t),o,s.signed(b,t))
            else: e='(%s %s %s)'%(a,o,b)
            return setv(T('int',bits=1),e)
        if op=='fcmp':
            while p.peekword() in('fast','nnan','ninf','nsz'): p.word()
            cc=p.word(); t=p.type(); a=s.val(p,t); p.expect(','); b=s.val(p,t)
            tbl={'oeq':'(%s == %s)','ogt':'(%s > %s)','oge':'(%s >= %s)','olt':'(%s < %s)','ole':'(%s <= %s)','one':'(%s < %s || %s > %s)',
                 'une':'(%s != %s)','ueq':'(!(%s < %s || %s > %s))','ord':'(%s==%s && %s==%s)','uno':'(%s!=%s || %s!=%s)',
                 'ugt':'(!(%s <= %s))','uge':'(!(%s < %s))','ult':'(!(%s >= %s))','ule':'(!(%s > %s))'}
            f=tbl[cc]; n=f.count('%s')
            args=(a,b) if n==2 else ((a,b,a,b) if cc in('one','ueq') else (a,a,b,b))
            return setv(T('int',bits=1),f%args)
        if op=='select':
            while p.peekword() in('fast',): p.word()
            ct_=p.type(); c=s.val(p,ct_); p.expect(','); t=p.type(); a=s.val(p,t); p.expect(','); t2=p.type(); b=s.val(p,t2)
            return setv(t,'(%s ? %s : %s)'%(c,a,b))
        if op=='freeze':
            t=p.type(); a=s.val(p,t); return setv(t,a)
        if op=='br':
            if p.eat('label'): return [edge(lb,p.ident()[1:].strip('"'))]
            t=p.type(); c=s.val(p,t); p.expect(','); p.expect('label'); a=p.ident()[1:].strip('"'); p.expect(','); p.expect('label'); b=p.ident()[1:].strip('"')
            return ['if (%s) %s else %s'%(c,edge(lb,a),edge(lb,b))]
        if op=='switch':
            t=p.type(); v=s.val(p,t); p.expect(','); p.expect('label'); d=p.ident()[1:].strip('"'); p.expect('['); out=[]
            while not p.eat(']'):
                ct_=p.type(); cv=s.val(p,ct_); p.expect(','); p.expect('label'); tgt=p.ident()[1:].strip('"')
                out.append('if (%s == %s) %s'%(v,cv,edge(lb,tgt)))
            out.append(edge(lb,d)); return out
        if op=='ret':
            t=p.type()
            if t.k=='void': return ['return;']
            return ['return %s;'%s.val(p,t)]
        if op=='unreachable': return ['__CPROVER_assume(0);']
        if op=='extractvalue':
            t=p.type(); a=s.val(p,t); rt=g.resolve(t); e=a
            while p.eat(','):
                m2=re.compile(r'\s*(\d+)').match(p.t,p.i); p.i=m2.end(); n=int(m2.group(1))
                if rt.k=='struct': e='%s.f%d'%(e,n); rt=g.resolve(rt.fields[n])
                else: e='%s.a[%d]'%(e,n); rt=g.resolve(rt.el)
            return setv(rt,e)
        if op=='insertvalue':
            t=p.type(); a=s.val(p,t); p.expect(','); et=p.type(); ev=s.val(p,et); rt=g.resolve(t); path=''
            while p.eat(','):
                m2=re.compile(r'\s*(\d+)').match(p.t,p.i); p.i=m2.end(); n=int(m2.group(1))
                if rt.k=='struct': path+='.f%d'%n; rt=g.resolve(rt.fields[n])
                else: path+='.a[%d]'%n; rt=g.resolve(rt.el)
            s.decl(dst,t); d='v_'+cname(dst); return ['%s = %s; %s%s = %s;'%(d,a,d,path,ev)]
        if op=='call':
            while p.peekword() in('fastcc','ccc','coldcc','fast','nnan','ninf','nsz','arcp','contract','afn','reassoc'): p.word()
            # return attrs
            skip_attrs(p)
            rt_=p.type(); p.ws()
            ft=None
            if rt_.k=='ptr' and rt_.to.k=='func': ft=rt_.to; rt_=ft.ret   # full fn ptr type given
            elif rt_.k=='func': ft=rt_; rt_=ft.ret
            p.ws()
            if p.peek()=='@' :
                callee=p.ident(); cn=cname(callee); direct=callee[1:]
            elif p.peek()=='%':
                callee=p.ident(); cn='v_'+cname(callee); direct=None
            else:
                # constant expr callee: bitcast (T @f to T2) -> direct call with argument casts
                m_=re.compile(r'\s*bitcast \(').match(p.t,p.i)
                p.i=m_.end(); p.type(); callee=p.ident(); p.expect('to'); p.type(); p.expect(')')
                cn=cname(callee); direct=callee[1:]; castcall=True
            p.expect('('); args=[]; atys=[]
            if not p.eat(')'):
                while True:
                    at=p.type()
                    skip_attrs(p)
                    if at.k=='metadata':
                        # skip metadata arg
                        depth=0
                        while p.i<len(p.t) and not (depth==0 and p.t[p.i] in ',)'):
                            if p.t[p.i]=='(': depth+=1
                            if p.t[p.i]==')': depth-=1
                            p.i+=1
                        args.append(None)
                    else:
                        args.append(s.val(p,at)); atys.append(at)
                    if p.eat(')'): break
                    p.expect(',')
            if direct and direct.startswith('llvm.'):
                return s.intrinsic(direct,args,atys,dst,rt_)
            if direct is None and ft is None:
                ft=T('func',ret=rt_,args=atys,va=False)
            if direct is None:
                def kind(t_):
                    r=g.resolve(t_)
                    return 'p' if r.k=='ptr' else (r.k+str(getattr(r,'bits','')))
                shape=(kind(rt_) if rt_.k!='void' else 'v',tuple(kind(a) for a in atys))
                shape_cands=[fn for fn,(fr,fp_,fva) in g.m.funcs.items() if fn in g.m.addr_taken and not fva and ((kind(fr) if fr.k!='void' else 'v'),tuple(kind(t_) for t_,_ in fp_))==shape]
                STATS['indirect']+=1
                cha=s.cha_candidates(callee, atys)
                if cha is not None:
                    cands=[fn for fn in cha if fn in g.m.funcs and not g.m.funcs[fn][2] and ((kind(g.m.funcs[fn][0]) if g.m.funcs[fn][0].k!='void' else 'v'),tuple(kind(t_) for t_,_ in g.m.funcs[fn][1]))==shape]
                    STATS['cha']+=1
                else:
                    cands=shape_cands; STATS['shape']+=1
                fpv=cn; out=[]
                if rt_.k!='void' and dst is not None: s.decl(dst,rt_)
                for fn in cands:
                    fr,fp_,fva=g.m.funcs[fn]
                    cargs=', '.join('((%s)%s)'%(g.ct(t_),a) for a,(t_,_) in zip([a for a in args if a is not None],fp_))
                    c_='%s(%s)'%(cname('@'+fn),cargs)
                    if rt_.k!='void' and dst is not None: c_='v_%s = (%s)%s'%(cname(dst),g.ct(rt_),c_)
                    out.append('if ((void*)%s == (void*)&%s) { %s; } else'%(fpv,cname('@'+fn),c_))
                out.append('{ __CPROVER_assert(0,"indirect call: no candidate"); __CPROVER_assume(0); }')
                return [' '.join(out)]
            elif ft is not None and direct in LIBC:
                pass
            call='%s(%s)'%(cn,', '.join(a for a in args if a is not None))
            if direct is not None and direct in g.m.funcs and 'castcall' in dir():
                fr,fp_,fva=g.m.funcs[direct]
                call='%s(%s)'%(cn,', '.join('((%s)%s)'%(g.ct(t_),a) for a,(t_,_) in zip([a for a in args if a is not None],fp_)))
                if rt_.k!='void': call='((%s)%s)'%(g.ct(rt_),call)
            if direct in LIBC:
                call='%s(%s)'%(direct,', '.join('(void*)%s'%a if g.resolve(t_).k=='ptr' else a for a,t_ in zip([a for a in args if a is not None],atys)))
                if rt_.k=='ptr': call='((%s)%s)'%(g.ct(rt_),call)
                elif rt_.k!='void': call='((%s)%s)'%(g.ct(rt_),call)
            if rt_.k=='void' or dst is None: return [call+';']
            return setv(rt_,call)
        raise SyntaxError('instr '+op+' :: '+l)
    def cha_candidates(s, callee, atys):
        """class-hierarchy analysis: callee is `load (gep vtable, K)` with vtable loaded through arg0's vptr."""
        g=s.g
        d=s.defs.get(callee)
        if not d or not d.startswith('load '): return None
        m=re.search(r'(%[-\w.$"]+)(?:, align \d+)?(?:, !.*)?$',d)
        if not m: return None
        src=m.group(1); slot=0
        d2=s.defs.get(src)
        if d2 and d2.startswith('getelementptr'):
            m2=re.search(r'(%[-\w.$"]+), i64 (\d+)$',d2)
            if not m2: return None
            slot=int(m2.group(2)); src=m2.group(1); d2=s.defs.get(src)
        if not d2 or not d2.startswith('load '): return None   # must be the vptr load
        if not atys or atys[0].k!='ptr': return None
        # NOTE: the IR type name of `this` is NOT reliable (llvm merges structurally identical classes, e.g. a
        # SDAI_LOGICAL object is typed %class.SDAI_BOOLEAN*), so the candidate set is: the function in slot K of
        # ANY vtable group of the module (a superset of the targets of every possible dynamic class); the caller
        # filters by parameter shape.
        out=[]
        for dcls in sorted(g.m.vt_by_class):
            for grp in g.m.vt_by_class[dcls]:
                if 2+slot < len(grp):
                    fn=grp[2+slot]
                    if fn and fn not in out: out.append(fn)
        return out
    def intrinsic(s,name,args,atys,dst,rt_):
        g=s.g
        if name.startswith('llvm.lifetime') or name.startswith('llvm.dbg') or name.startswith('llvm.experimental.noalias') or name.startswith('llvm.assume'):
            return []
        if name.startswith('llvm.memcpy') or name.startswith('llvm.memmove'):
            return ['%s((void*)%s,(void*)%s,%s);'%('memcpy' if 'memcpy' in name else 'memmove',args[0],args[1],args[2])]
        if name.startswith('llvm.memset'):
            return ['memset((void*)%s,%s,%s);'%(args[0],args[1],args[2])]
        def setv(t,e):
            s.decl(dst,t); return ['v_%s = %s;'%(cname(dst),e)]
        if name.startswith('llvm.trap'): return ['__CPROVER_assume(0);']
        t=atys[0]
        if name.startswith('llvm.umul.with.overflow'):
            return setv(rt_,'((%s){ (%s)(%s * %s), (unsigned char)(%s != 0 && %s > (%s)(~(%s)0) / %s) })'%(g.ct(rt_),g.ct(t),args[0],args[1],args[1],args[0],g.ct(t),g.ct(t),args[1]))
        if name.startswith('llvm.uadd.with.overflow'):
            return setv(rt_,'((%s){ (%s)(%s + %s), (unsigned char)((%s)(%s + %s) < %s) })'%(g.ct(rt_),g.ct(t),args[0],args[1],g.ct(t),args[0],args[1],args[0]))
        if name.startswith('llvm.umin'): return setv(t,'(%s < %s ? %s : %s)'%(args[0],args[1],args[0],args[1]))
        if name.startswith('llvm.umax'): return setv(t,'(%s > %s ? %s : %s)'%(args[0],args[1],args[0],args[1]))
        if name.startswith('llvm.smin'): return setv(t,'(%s < %s ? %s : %s)'%(s.signed(args[0],t),s.signed(args[1],t),args[0],args[1]))
        if name.startswith('llvm.smax'): return setv(t,'(%s > %s ? %s : %s)'%(s.signed(args[0],t),s.signed(args[1],t),args[0],args[1]))
        if name.startswith('llvm.abs'): return setv(t,'((%s)(%s < 0 ? -%s : %s))'%(g.ct(t),s.signed(args[0],t),s.signed(args[0],t),s.signed(args[0],t)))
        if name.startswith('llvm.fabs'): return setv(t,'fabs(%s)'%args[0])
        if name.startswith('llvm.ceil'): return setv(t,'ceil(%s)'%args[0])
        if name.startswith('llvm.floor'): return setv(t,'floor(%s)'%args[0])
        if name.startswith('llvm.expect'): return setv(t,args[0])
        if name.startswith('llvm.trap'): return ['__CPROVER_assume(0);']
        raise SyntaxError('intrinsic '+name)

def parse_module(text):
    m=Mod(); lines=text.split('\n'); i=0
    while i<len(lines):
        l=lines[i]
        if re.match(r'^%[^ ]+ = type ',l):
            p=P(l); nm=p.ident()[1:]; p.expect('='); p.expect('type'); m.named[nm]=p.type()
        elif l.startswith('@'):
            m.globals[l.split(' = ')[0]]=l
            m.order.append(('g',l.split(' = ')[0]))
        elif l.startswith('declare '):
            m.order.append(('d',l))
        elif l.startswith('define '):
            body=[]; i+=1
            while lines[i]!='}': body.append(lines[i]); i+=1
            m.order.append(('f',l,body))
        i+=1
    return m

LINK=r'(?:private |internal |linkonce_odr |weak_odr |linkonce |weak |external |common |available_externally |appending )?'
def parse_sig(l, isdef):
    l=re.sub(r'^(define|declare) ','',l)
    l=re.sub(r'^'+LINK,'',l)
    l=re.sub(r'^(dso_local |dso_preemptable |hidden |protected |default )*','',l)
    l=re.sub(r'^(fastcc |ccc |coldcc )','',l)
    p=P(l)
    skip_attrs(p)
    ret=p.type(); name=p.ident(); p.expect('('); params=[]; va=False
    if not p.eat(')'):
        while True:
            if p.eat('...'): va=True
            else:
                t=p.type()
                skip_attrs(p)
                pn=None; p.ws()
                if p.peek()=='%': pn=p.ident()
                params.append((t,pn))
            if p.eat(')'): break
            p.expect(',')
    return ret,name,params,va

def demangle_simple(sym):
    """_ZTV7InstMgr -> InstMgr ; _ZTVN3foo3BarE -> foo::Bar ; None if not understood"""
    r=sym
    if r.startswith('N'):
        r=r[1:]; parts=[]
        while r and r[0]!='E':
            mm=re.match(r'(\d+)',r)
            if not mm: return None
            n=int(mm.group(1)); r=r[mm.end():]; parts.append(r[:n]); r=r[n:]
        return '::'.join(parts)
    mm=re.match(r'(\d+)',r)
    if not mm: return None
    n=int(mm.group(1)); r=r[mm.end():]
    return r[:n] if len(r)==n else None

def build_hierarchy(m):
    """vtables (_ZTV*) -> list of groups of function names; typeinfo (_ZTI*) -> base classes -> derived closure."""
    m.vt_by_class={}; bases={}
    for gname,l in m.globals.items():
        if gname.startswith('@_ZTV') and ' = ' in l and ('constant' in l or 'global' in l):
            cls=demangle_simple(gname[5:])
            if cls is None: continue
            init=l.split(' = ',1)[1]
            groups=[]
            for gm in re.finditer(r'\[\d+ x i8\*\] \[(.*?)\](?=[,} ])',init):
                ents=[]
                for e in split_top(gm.group(1)):
                    mm=re.search(r'@([-\w.$]+)',e)
                    ents.append(mm.group(1) if mm and not mm.group(1).startswith('_ZTI') else None)
                groups.append(ents)
            m.vt_by_class[cls]=groups
        if gname.startswith('@_ZTI') and ' = ' in l:
            cls=demangle_simple(gname[5:])
            if cls is None: continue
            bs=[demangle_simple(x) for x in re.findall(r'@_ZTI([\w]+)',l.split(' = ',1)[1])]
            bases[cls]=[b for b in bs if b and b!=cls]
    m.derived={}
    for c in set(list(bases)+list(m.vt_by_class)):
        m.derived.setdefault(c,set()).add(c)
    changed=True
    allb={}
    def anc(c,seen=()):
        out=set()
        for b in bases.get(c,[]):
            if b in seen: continue
            out.add(b); out|=anc(b,seen+(c,))
        return out
    for c in list(m.derived):
        for a in anc(c):
            m.derived.setdefault(a,set([a])).add(c)

def main():
    text=open(sys.argv[1]).read(); m=parse_module(text); g=Gen(m)
    fout=[]; protos=[]; gl=[]
    sigs={}
    for it in m.order:
        if it[0]=='d':
            ret,name,params,va=parse_sig(it[1],False); m.decls[name[1:]]=(ret,params,va)
        elif it[0]=='f':
            ret,name,params,va=parse_sig(it[1],True); m.funcs[name[1:]]=(ret,params,va)
    m.addr_taken=set()
    for gl_ in m.globals.values():
        for nm_ in re.findall(r'@([-\w.$]+)',gl_.split(' = ',1)[1] if ' = ' in gl_ else ''):
            if nm_ in m.funcs: m.addr_taken.add(nm_)
    for it in m.order:
        if it[0]=='f':
            for bl in it[2]:
                if '@' not in bl: continue
                t=re.sub(r'@[-\w.$]+\(','(',bl)      # direct callees are not address-taken uses
                for nm_ in re.findall(r'@([-\w.$]+)',t):
                    if nm_ in m.funcs: m.addr_taken.add(nm_)
    build_hierarchy(m)
    for it in m.order:
        if it[0]=='f':
            ret,name,params,va=parse_sig(it[1],True)
            ft=FuncTx(g,name,ret,params,it[2])
            for k,(t,pn) in enumerate(params):
                if pn is None: params[k]=(t,'%%arg%d'%k)
            code=ft.translate()
            pl=', '.join(['%s v_%s'%(g.ct(t),cname(pn)) for t,pn in params]+(['...'] if va else [])) or 'void'
            head='%s %s(%s)'%(g.ct(ret),cname(name),pl)
            protos.append(head+';')
            decls=[]
            pnames={'v_'+cname(pn) for t,pn in params}
            for vn,t in ft.vtypes.items():
                if vn in pnames: continue
                if isinstance(t,tuple): decls.append('  %s %s;'%(g.ct(t[1]),vn))
                else: decls.append('  %s %s;'%(g.ct(t),vn))
            fout.append(head+' {\n'+'\n'.join(decls)+'\n  '+'\n  '.join(code)+'\n}\n')
    for name,(ret,params,va) in m.decls.items():
        if name.startswith('llvm.') or name in LIBC: continue
        pl=', '.join([g.ct(t) for t,pn in params]+(['...'] if va else [])) or 'void'
        protos.append('%s %s(%s);'%(g.ct(ret),cname(name),pl))
    # globals
    gdecl=[]; gdef=[]; aliases=[]
    dummy=FuncTx(g,'@g',T('void'),[],[])
    for gname,l in m.globals.items():
        mm=re.match(r'^(@[^ ]+) = '+LINK+r'(?:dso_local |hidden |protected )?(?:unnamed_addr |local_unnamed_addr )?(?:thread_local |thread_local\(\w+\) )?(?:addrspace\(\d+\) )?(global|constant|alias) (.*)$',l)
        if not mm:
            if not gname.startswith('@llvm.'): sys.stderr.write('ir2c: skipped global: %s\n'%l[:100])
            continue
        kind=mm.group(2); rest=mm.group(3)
        if kind=='alias':
            tgt=re.findall(r'@([-\w.$]+)',rest)[-1]; aliases.append('#define %s %s'%(cname(gname),cname('@'+tgt))); continue
        rest=re.sub(r', (align \d+|comdat.*|section .*|!dbg.*)$','',rest)
        rest=re.sub(r', comdat.*$','',rest); rest=re.sub(r', align \d+$','',rest)
        p=P(rest); t=p.type(); cn=cname(gname); ext=('external ' in l.split(kind)[0])
        if ext or p.i>=len(p.t.rstrip()):
            gdecl.append('extern %s %s;'%(g.ct(t),cn)); continue
        gdecl.append('extern %s %s;'%(g.ct(t),cn))
        gdef.append((cn,t,p.t[p.i:]))
    gdefs=[]
    for cn,t,init in gdef:
        v=dummy.val(P(init),t)
        gdefs.append('%s %s = %s;'%(g.ct(t),cn,v))
    fwd,fps,structs=g.emit_types()
    outf = open(sys.argv[2], 'w') if len(sys.argv) > 2 else sys.stdout
    def pr(x): outf.write(x + '\n')
    pr('#include <string.h>\n#include <stdlib.h>\n#include <stdio.h>\n#include <math.h>\n#include "ir2c_rt.h"')
    pr('\n'.join(aliases)); pr('\n'.join(fwd)); pr('\n'.join(fps)); pr('\n'.join(structs))
    pr('\n'.join(gdecl)); pr('\n'.join(protos)); pr('\n'.join(gdefs)); pr('\n'.join(fout))
    # dynamic initialisers (llvm.global_ctors) in priority/appearance order
    ctors=[]
    gc=m.globals.get('@llvm.global_ctors')
    if gc:
        for mm in re.finditer(r'\{ i32 (\d+), void \(\)\* @([-\w.$]+), i8\* [^}]*\}',gc):
            ctors.append((int(mm.group(1)),mm.group(2)))
    pr('void __verif_global_ctors(void) {')
    for pri,fn in sorted(ctors,key=lambda x:x[0]):
        if fn in m.funcs: pr('  %s();'%cname('@'+fn))
    pr('}')
    if outf is not sys.stdout: outf.close()
    sys.stderr.write('ir2c: %d functions, %d indirect call sites (%d by class hierarchy, %d by shape)\n' % (len(m.funcs), STATS['indirect'], STATS['cha'], STATS['shape']))

STATS = {'indirect': 0, 'cha': 0, 'shape': 0}
main()
