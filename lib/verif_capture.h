/* stderr/stdout capture: CBMC -> printf_model.c buffer; NATIVE -> real stdio redirected to a temp file */
#ifndef VERIF_CAPTURE_H
#define VERIF_CAPTURE_H
#ifndef VERIF_OUT_CAP
#define VERIF_OUT_CAP 256
#endif
#ifdef NATIVE
#include <stdio.h>
#include <unistd.h>
static char verif_out[VERIF_OUT_CAP]; static unsigned verif_out_len; static int verif_out_ovf;
static int verif_cap_fd_err = -1, verif_cap_fd_out = -1; static char verif_cap_path[64];
static void verif_capture_begin(void) {
    fflush(stdout); fflush(stderr);
    snprintf(verif_cap_path, sizeof verif_cap_path, "/tmp/verif_cap_%d", (int)getpid());
    verif_cap_fd_err = dup(2);
    freopen(verif_cap_path, "w", stderr);
}
static void verif_capture_end(void) {
    FILE *f; int n;
    fflush(stderr);
    dup2(verif_cap_fd_err, 2); close(verif_cap_fd_err);
    f = fopen(verif_cap_path, "r"); n = f ? (int)fread(verif_out, 1, VERIF_OUT_CAP - 1, f) : 0; if(n < 0) n = 0;
    if(f) { if(fgetc(f) != EOF) verif_out_ovf = 1; fclose(f); }
    verif_out[n] = 0; verif_out_len = (unsigned)n; unlink(verif_cap_path);
}
#else
extern char verif_out[VERIF_OUT_CAP]; extern unsigned verif_out_len; extern int verif_out_ovf;
static void verif_capture_begin(void) { verif_out_len = 0; verif_out[0] = 0; verif_out_ovf = 0; }
static void verif_capture_end(void) { }
#endif
/* does hay (NUL terminated) contain needle? */
static int verif_contains(const char *hay, const char *needle) {
    int i, j;
    for(i = 0; hay[i]; i++) { for(j = 0; needle[j] && hay[i + j] == needle[j]; j++) ; if(!needle[j]) return 1; }
    return needle[0] == 0;
}
static int verif_startswith(const char *hay, const char *pre) { int j; for(j = 0; pre[j]; j++) if(hay[j] != pre[j]) return 0; return 1; }
#endif
