#ifndef NATIVE_GEN
/* sprintf used only to build diagnostic message text that the ErrorDescriptor stub drops: writes an empty string */
int sprintf(char *b, const char *f, ...) { (void)f; b[0] = 0; return 0; }
#endif
