#ifndef NATIVE_GEN
/* memmove/memcpy as plain byte loops: with concrete sizes (in particular size 0) symbolic execution keeps the contents of the
 * destination precise, whereas CBMC's built-in array-copy model makes every later read of the object a symbolic expression */
#include <stddef.h>
void *memmove(void *d, const void *s, size_t n) {
    unsigned char *dd = (unsigned char *)d; const unsigned char *ss = (const unsigned char *)s; size_t i;
    if(dd < ss) { for(i = 0; i < n; i++) dd[i] = ss[i]; } else if(dd > ss) { for(i = n; i > 0; i--) dd[i - 1] = ss[i - 1]; }
    return d;
}
void *memcpy(void *d, const void *s, size_t n) { unsigned char *dd = (unsigned char *)d; const unsigned char *ss = (const unsigned char *)s; size_t i; for(i = 0; i < n; i++) dd[i] = ss[i]; return d; }
#endif
