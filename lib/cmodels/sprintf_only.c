/* sprintf/snprintf content model without the stream functions */
#define PRINTF_MODEL_NO_STREAMS 1
#include "printf_model.c"
