/* sprintf stub for harnesses whose formatted values are one decimal digit by construction (stated in their bounds):
 * the only format accepted is "%ld"; a value outside 0..9 is outside the stub's contract and cuts the path. */
#include <stdarg.h>
#ifndef NATIVE_GEN
int sprintf(char *buf, const char *f, ...) {
    va_list ap; long v;
    __CPROVER_assert(f[0] == '%' && f[1] == 'l' && f[2] == 'd' && f[3] == 0, "sprintf_digit stub: only \"%ld\" is modelled");
    va_start(ap, f); v = va_arg(ap, long); va_end(ap);
    __CPROVER_assume(v >= 0 && v <= 9);
    buf[0] = (char)('0' + v); buf[1] = 0;
    return 1;
}
#endif
