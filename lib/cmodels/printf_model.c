#ifndef NATIVE_GEN   /* translation-validation builds use the real libc */
/* Content model of the printf family for CBMC harnesses (E1/E2).
 * Everything written through FILE* streams is appended to one capture buffer verif_out[];
 * vsnprintf/snprintf/sprintf/vsprintf format into the caller's buffer with C99 semantics
 * (return value = length that would have been written).
 * Supported conversions: %s %d %i %u %c %x %X %o(no) %p(no) %ld %lu %lx %zu %% with flags 0 and -, width
 * (number or *), precision for %s and integers (number or *).  %f/%g/%e consume a double and
 * emit the placeholder "<fp>" (decimal conversion is not modelled, see DESIGN.md).
 * The model is diffed natively against glibc by tools/selftest_printf (setup_cmd).
 */
#include <stdarg.h>
#include <stddef.h>
#ifndef VERIF_OUT_CAP
#define VERIF_OUT_CAP 256
#endif
/* CBMC does not apply the default argument promotions to variadic arguments: a char argument is a 1-byte object.
 * Reading the low byte is right for promoted and unpromoted arguments alike (little endian). */
#ifdef VERIF_CBMC
#define VA_CHAR(ap) ((int)va_arg(ap, char))
#else
#define VA_CHAR(ap) va_arg(ap, int)
#endif
#ifndef VERIF_STR_MAX
#define VERIF_STR_MAX 64
#endif
#ifdef PRINTF_MODEL_SELFTEST
#define MODEL(n) m_##n
#else
#define MODEL(n) n
#endif
char verif_out[VERIF_OUT_CAP];
unsigned verif_out_len;
int verif_out_ovf;
typedef struct verif_sink { char *buf; size_t cap; size_t n; } verif_sink;
/* the model's own arithmetic and buffer handling is trusted (validated natively); generated checks are kept only in
 * vs_format, where the caller's va_list and %s pointers are dereferenced */
#pragma CPROVER check push
#pragma CPROVER check disable "pointer"
#pragma CPROVER check disable "bounds"
#pragma CPROVER check disable "pointer-overflow"
#pragma CPROVER check disable "signed-overflow"
#pragma CPROVER check disable "conversion"
#pragma CPROVER check disable "undefined-shift"
static void vs_put(verif_sink *s, char c) {
    if(s->buf && s->n + 1 < s->cap) s->buf[s->n] = c;
    s->n++;
}
static void vs_num(verif_sink *s, unsigned long v, int neg, unsigned base, int upper, int width, int zero, int left, int prec, int lng) {
    char tmp[24]; int n = 0, i, len, pad, k;
    if(v == 0 && prec != 0) tmp[n++] = '0';
    /* division by the constants 10 / 16 only, in 32 bits unless the l modifier was given; digit loops have concrete bounds */
    if(!lng) {
        unsigned w = (unsigned)v;
        if(base == 10) { for(k = 0; k < 10 && w; k++) { tmp[n++] = (char)('0' + w % 10u); w /= 10u; } }
        else { for(k = 0; k < 8 && w; k++) { unsigned d = w & 15u; tmp[n++] = (char)(d < 10 ? '0' + d : (upper ? 'A' : 'a') + d - 10); w >>= 4; } }
    } else {
        if(base == 10) { for(k = 0; k < 20 && v; k++) { tmp[n++] = (char)('0' + v % 10ul); v /= 10ul; } }
        else { for(k = 0; k < 16 && v; k++) { unsigned d = (unsigned)(v & 15ul); tmp[n++] = (char)(d < 10 ? '0' + d : (upper ? 'A' : 'a') + d - 10); v >>= 4; } }
    }
    len = n; if(prec > len) len = prec;
    if(neg) len++;
    pad = width > len ? width - len : 0;
    /* all loops below have bounds that are concrete whenever the format string is (width, prec are literals) */
    if(!left && !(zero && prec < 0)) for(i = 0; i < width; i++) if(i < pad) vs_put(s, ' ');
    if(neg) vs_put(s, '-');
    if(!left && zero && prec < 0) for(i = 0; i < width; i++) if(i < pad) vs_put(s, '0');
    for(i = 0; i < prec; i++) if(i >= n) vs_put(s, '0');
    for(i = (lng ? 19 : 9); i >= 0; i--) if(i < n) vs_put(s, tmp[i]);
    if(left) for(i = 0; i < width; i++) if(i < pad) vs_put(s, ' ');
}
#pragma CPROVER check pop
static int vs_format(verif_sink *s, const char *f, va_list ap) {
    while(*f) {
        if(*f != '%') { vs_put(s, *f++); continue; }
        f++;
        { int zero = 0, left = 0, width = 0, prec = -1, lng = 0;
          for(;; f++) { if(*f == '0') zero = 1; else if(*f == '-') left = 1; else if(*f == '+' || *f == ' ' || *f == '#') ; else break; }
          if(*f == '*') { width = va_arg(ap, int); if(width < 0) { left = 1; width = -width; } f++; }
          else while(*f >= '0' && *f <= '9') width = width * 10 + (*f++ - '0');
          if(*f == '.') { f++; prec = 0; if(*f == '*') { prec = va_arg(ap, int); f++; } else while(*f >= '0' && *f <= '9') prec = prec * 10 + (*f++ - '0'); }
          while(*f == 'l' || *f == 'z' || *f == 'h') { if(*f != 'h') lng = 1; f++; }
          switch(*f) {
          case '%': vs_put(s, '%'); break;
          case 'c': { int c = VA_CHAR(ap); int i; if(!left) for(i = 1; i < width; i++) vs_put(s, ' '); vs_put(s, (char)c); if(left) for(i = 1; i < width; i++) vs_put(s, ' '); } break;
          case 's': { const char *p = va_arg(ap, const char *); int n = 0, i; if(!p) p = "(null)";
                      if(width == 0) {   /* common case: copy while scanning, so the loop structure follows the string exactly */
                          for(; n < VERIF_STR_MAX && p[n] && (prec < 0 || n < prec); n++) vs_put(s, p[n]);
                      } else {
                          while(n < VERIF_STR_MAX && p[n] && (prec < 0 || n < prec)) n++;   /* cap: a garbage pointer must not spin to the unwind bound */
                          if(!left) for(i = 0; i < width; i++) if(i >= n) vs_put(s, ' ');
                          for(i = 0; i < VERIF_STR_MAX; i++) if(i < n) vs_put(s, p[i]);
                          if(left) for(i = 0; i < width; i++) if(i >= n) vs_put(s, ' ');
                      } } break;
          case 'd': case 'i': if(lng) { long v = va_arg(ap, long); vs_num(s, v < 0 ? 0UL - (unsigned long)v : (unsigned long)v, v < 0, 10, 0, width, zero, left, prec, 1); }
                              else { int v = va_arg(ap, int); vs_num(s, v < 0 ? 0U - (unsigned)v : (unsigned)v, v < 0, 10, 0, width, zero, left, prec, 0); } break;
          case 'u': { unsigned long v = lng ? va_arg(ap, unsigned long) : (unsigned long)va_arg(ap, unsigned); vs_num(s, v, 0, 10, 0, width, zero, left, prec, lng); } break;
          case 'x': case 'X': { unsigned long v = lng ? va_arg(ap, unsigned long) : (unsigned long)va_arg(ap, unsigned); vs_num(s, v, 0, 16, *f == 'X', width, zero, left, prec, lng); } break;
          case 'f': case 'g': case 'e': case 'G': case 'E': { double d = va_arg(ap, double); (void)d; vs_put(s, '<'); vs_put(s, 'f'); vs_put(s, 'p'); vs_put(s, '>'); } break;
          default: vs_put(s, '?'); break;
          }
          if(*f) f++;
        }
    }
    return (int)s->n;
}
int MODEL(vsnprintf)(char *buf, size_t cap, const char *f, va_list ap) {
    verif_sink s; int r; s.buf = buf; s.cap = cap; s.n = 0;
    r = vs_format(&s, f, ap);
    if(buf && cap) buf[s.n < cap ? s.n : cap - 1] = 0;
    return r;
}
int MODEL(vsprintf)(char *buf, const char *f, va_list ap) { return MODEL(vsnprintf)(buf, (size_t)1 << 30, f, ap); }
int MODEL(snprintf)(char *buf, size_t cap, const char *f, ...) { va_list ap; int r; va_start(ap, f); r = MODEL(vsnprintf)(buf, cap, f, ap); va_end(ap); return r; }
int MODEL(sprintf)(char *buf, const char *f, ...) { va_list ap; int r; va_start(ap, f); r = MODEL(vsnprintf)(buf, (size_t)1 << 30, f, ap); va_end(ap); return r; }
#ifndef PRINTF_MODEL_SELFTEST
#ifndef PRINTF_MODEL_NO_STREAMS
#include <stdio.h>
static void out_append(const char *p, int n) {
    int i; for(i = 0; i < n; i++) { if(verif_out_len + 1 < VERIF_OUT_CAP) { verif_out[verif_out_len++] = p[i]; verif_out[verif_out_len] = 0; } else verif_out_ovf = 1; }
}
int vfprintf(FILE *fp, const char *f, va_list ap) {
    verif_sink s; int r; (void)fp;
    s.buf = verif_out + verif_out_len; s.cap = VERIF_OUT_CAP - verif_out_len; s.n = 0;
    r = vs_format(&s, f, ap);
    if((size_t)r >= s.cap) { verif_out_ovf = 1; verif_out_len = VERIF_OUT_CAP - 1; } else verif_out_len += (unsigned)r;
    verif_out[verif_out_len] = 0;
    return r;
}
int fprintf(FILE *fp, const char *f, ...) { va_list ap; int r; va_start(ap, f); r = vfprintf(fp, f, ap); va_end(ap); return r; }
int printf(const char *f, ...) { va_list ap; int r; va_start(ap, f); r = vfprintf((FILE *)0, f, ap); va_end(ap); return r; }
int fputc(int c, FILE *fp) { char ch = (char)c; (void)fp; out_append(&ch, 1); return c; }
int putc(int c, FILE *fp) { return fputc(c, fp); }
int fputs(const char *p, FILE *fp) { int n = 0; (void)fp; while(p[n]) n++; out_append(p, n); return 0; }
int puts(const char *p) { fputs(p, (FILE *)0); fputc('\n', (FILE *)0); return 0; }
int fflush(FILE *fp) { (void)fp; return 0; }
#endif
#endif
#endif
