/* C++ run-time pieces the translated C needs (E2): operator new/delete, pure-virtual trap, typeinfo vtables,
 * and the two uninterpreted decimal<->double conversions of the vstd model.
 *   CBMC build:        new = calloc + assume non-null (allocation failure is out of scope, stated), strtod = nondet
 *   NATIVE_GEN build:  (translation validation) new = calloc, strtod/format = libc */
#include <stdlib.h>
#include <string.h>
#include <stdio.h>
#ifdef NATIVE_GEN
void *_Znwm(unsigned long n) { void *p = calloc(1, n ? n : 1); if(!p) abort(); return p; }
void *_Znam(unsigned long n) { void *p = calloc(1, n ? n : 1); if(!p) abort(); return p; }
void __verif_bound_exceeded(void) { printf("MODEL-BOUND-EXCEEDED\n"); fflush(stdout); exit(78); }
double __verif_strtod(const char *s, int n, int *ok) { char b[128]; char *e; double d; if(n > 127) n = 127; memcpy(b, s, (size_t)n); b[n] = 0; d = strtod(b, &e); *ok = (d <= 1.7976931348623157e308 && d >= -1.7976931348623157e308); return d; }
int __verif_fmt_double(char *o, int cap, double v, int prec) { return snprintf(o, (size_t)cap, "%.*g", prec, v); }
void __cxa_pure_virtual(void) { abort(); }
#else
void *_Znwm(unsigned long n) { void *p = calloc(1, n); __CPROVER_assume(p != 0); return p; }
void *_Znam(unsigned long n) { void *p = calloc(1, n); __CPROVER_assume(p != 0); return p; }
void __verif_bound_exceeded(void) { __CPROVER_assume(0); }
double nondet_double(void); int nondet_int(void);
#ifndef HARNESS_STRTOD
double __verif_strtod(const char *s, int n, int *ok) { (void)s; (void)n; *ok = nondet_int() & 1; return nondet_double(); }
#endif
int __verif_fmt_double(char *o, int cap, double v, int prec) { (void)o; (void)cap; (void)v; (void)prec; return 0; }
void __cxa_pure_virtual(void) { __CPROVER_assert(0, "pure virtual function called"); __CPROVER_assume(0); }
/* libc strtod called directly by the code under test: same uninterpreted conversion as the vstd extractor
 * (prefix syntax scanned here, value and range verdict from __verif_strtod; out of range => +-HUGE_VAL, errno = ERANGE) */
#include <errno.h>
double __verif_strtod(const char *s, int n, int *ok);
static int verif_errno; int *__errno_location(void) { return &verif_errno; }
double strtod(const char *s, char **end) {
    int i = 0, j, any = 0, ok = 1; double v;
    while(s[i] == ' ' || (s[i] >= 9 && s[i] <= 13)) i++;
    j = i; if(s[j] == '+' || s[j] == '-') j++;
    while(s[j] >= '0' && s[j] <= '9') { j++; any = 1; }
    if(s[j] == '.') { j++; while(s[j] >= '0' && s[j] <= '9') { j++; any = 1; } }
    if(!any) { if(end) *end = (char *)s; return 0.0; }
    if(s[j] == 'e' || s[j] == 'E') { int k = j + 1, ed = 0; if(s[k] == '+' || s[k] == '-') k++; while(s[k] >= '0' && s[k] <= '9') { k++; ed = 1; } if(ed) j = k; }
    v = __verif_strtod(s + i, j - i, &ok);
    if(end) *end = (char *)(s + j);
    if(!ok) { double big = 1e308; big = big * 10.0; errno = ERANGE; if(s[i] == '-') big = 0.0 - big; return big; }
    return v;
}
/* libc strtoull for base 0 / 8 / 10 / 16 (the lazy loader's instance numbers): optional blanks and sign, radix prefix when base is 0 or 16,
 * digits of the radix, saturating at ULLONG_MAX with errno = ERANGE; no multiplication by a symbolic value (shifts and adds) */
unsigned long long strtoull(const char *s, char **end, int base) {
    int i = 0, any = 0, ovf = 0, neg = 0; unsigned long long acc = 0;
    __CPROVER_assert(base == 0 || base == 8 || base == 10 || base == 16, "strtoull model: bases 0, 8, 10, 16 only");
    while(s[i] == ' ' || (s[i] >= 9 && s[i] <= 13)) i++;
    if(s[i] == '+' || s[i] == '-') { neg = s[i] == '-'; i++; }
    if((base == 0 || base == 16) && s[i] == '0' && (s[i + 1] == 'x' || s[i + 1] == 'X')
       && ((s[i + 2] >= '0' && s[i + 2] <= '9') || (s[i + 2] >= 'a' && s[i + 2] <= 'f') || (s[i + 2] >= 'A' && s[i + 2] <= 'F'))) { i += 2; base = 16; }
    else if(base == 0) base = (s[i] == '0') ? 8 : 10;
    for(;;) {
        unsigned long long d; char c = s[i];
        if(c >= '0' && c <= '9') d = (unsigned long long)(c - '0'); else if(c >= 'a' && c <= 'f') d = (unsigned long long)(c - 'a' + 10); else if(c >= 'A' && c <= 'F') d = (unsigned long long)(c - 'A' + 10); else break;
        if(d >= (unsigned long long)base) break;
        if(base == 10) { if(ovf || acc > 1844674407370955161ULL || (acc == 1844674407370955161ULL && d > 5)) ovf = 1; else acc = (acc << 3) + (acc << 1) + d; }
        else if(base == 8) { if(ovf || (acc >> 61)) ovf = 1; else acc = (acc << 3) + d; }
        else { if(ovf || (acc >> 60)) ovf = 1; else acc = (acc << 4) + d; }
        i++; any = 1;
    }
    if(end) *end = (char *)(any ? s + i : s);
    if(ovf) { errno = ERANGE; return 18446744073709551615ULL; }
    return neg ? 0ULL - acc : acc;
}
#endif
void _ZdlPv(void *p) { free(p); }
void _ZdaPv(void *p) { free(p); }
void _ZdlPvm(void *p, unsigned long n) { (void)n; free(p); }
int __cxa_atexit(void *a, void *b, void *c) { (void)a; (void)b; (void)c; return 0; }
int __cxa_guard_acquire(long *g) { return *(char *)g == 0; }
void __cxa_guard_release(long *g) { *(char *)g = 1; }
void *__dynamic_cast(void *p, void *a, void *b, long d) { (void)a; (void)b; (void)d; return p; }   /* stated stub: down-casts of harness-created objects only */
void *_ZTVN10__cxxabiv120__si_class_type_infoE[8]; void *_ZTVN10__cxxabiv117__class_type_infoE[8]; void *_ZTVN10__cxxabiv121__vmi_class_type_infoE[8];
#ifndef NATIVE_GEN
unsigned char __dso_handle;
#endif
