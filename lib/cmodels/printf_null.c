#ifndef NATIVE_GEN   /* translation-validation builds use the real libc */
/* "logging gets an empty body": stream output functions that discard everything (used where formatting is not the subject) */
#include <stdio.h>
#include <stdarg.h>
int fprintf(FILE *fp, const char *f, ...) { (void)fp; (void)f; return 0; }
int printf(const char *f, ...) { (void)f; return 0; }
int vfprintf(FILE *fp, const char *f, va_list ap) { (void)fp; (void)f; (void)ap; return 0; }
int fputc(int c, FILE *fp) { (void)fp; return c; }
int putc(int c, FILE *fp) { (void)fp; return c; }
int fputs(const char *p, FILE *fp) { (void)p; (void)fp; return 0; }
int puts(const char *p) { (void)p; return 0; }
int fflush(FILE *fp) { (void)fp; return 0; }
#endif
