/* run-time header of ir2c output */
#ifndef IR2C_RT_H
#define IR2C_RT_H
#ifdef NATIVE_GEN
/* translation-validation build: CBMC primitives become run-time traps */
#include <stdio.h>
#include <stdlib.h>
#define __CPROVER_assume(c) do { if(!(c)) { printf("GEN-ASSUME-FALSE line %d\n", __LINE__); fflush(stdout); exit(79); } } while(0)
#define __CPROVER_assert(c, msg) do { if(!(c)) { printf("GEN-ASSERT %s\n", msg); fflush(stdout); exit(80); } } while(0)
#endif
#endif
