"""E3: CrossHair (Z3-backed symbolic execution) on contract functions over the real stepcode Python runtime."""
import os, re, sys, time, json, subprocess, importlib.util, ast, hashlib
VERIF = os.path.dirname(os.path.dirname(os.path.abspath(__file__)))
REPO = os.environ.get('VERIF_REPO', '/repo')
CROSSHAIR = '/opt/veriftools/pyvenv/bin/crosshair'
PYVT = '/opt/veriftools/pyvenv/bin/python'

def functions_of(path):
    t = ast.parse(open(path).read())
    out = []
    for n in t.body:
        if isinstance(n, ast.FunctionDef) and not n.name.startswith('_') and ast.get_docstring(n) and 'post:' in ast.get_docstring(n):
            out.append((n.name, n.lineno, ast.get_docstring(n)))
    return out

def check(path, fn, per_condition_timeout):
    t0 = time.time()
    cmd = [CROSSHAIR, 'check', '--analysis_kind=PEP316', '--report_all', '--per_condition_timeout', str(per_condition_timeout), '%s:%s' % (path, fn) if False else path]
    # one function at a time: module:function targets are addressed as file.py:lineno is not supported; use a filtered copy
    env = dict(os.environ, VERIF_REPO=REPO, PYTHONDONTWRITEBYTECODE='1')
    p = subprocess.run(cmd, stdout=subprocess.PIPE, stderr=subprocess.STDOUT, env=env, timeout=per_condition_timeout * 3 + 120)
    return p.returncode, p.stdout.decode('utf-8', 'replace'), time.time() - t0

def single_function_copy(path, fn, wd):
    """copy of the contracts module with only `fn` keeping its contract (others lose their docstrings)"""
    src = open(path).read(); t = ast.parse(src)
    for n in t.body:
        if isinstance(n, ast.FunctionDef) and n.name != fn and ast.get_docstring(n):
            n.body = n.body[1:] or [ast.Pass()]
    out = os.path.join(wd, 'c_%s.py' % fn)
    open(out, 'w').write(ast.unparse(t))
    return out

def replay_call(path, call):
    """run the concrete counterexample call against the real runtime; returns the function's result"""
    code = 'import sys, importlib.util\nspec = importlib.util.spec_from_file_location("c", %r)\nm = importlib.util.module_from_spec(spec); spec.loader.exec_module(m)\nfrom stepcode.AggregationDataTypes import *\nfrom stepcode.SimpleDataTypes import *\nprint("RESULT", m.%s)\n' % (path, call)
    p = subprocess.run([PYVT, '-c', code], stdout=subprocess.PIPE, stderr=subprocess.STDOUT, env=dict(os.environ, VERIF_REPO=REPO, PYTHONDONTWRITEBYTECODE='1'), timeout=120)
    out = p.stdout.decode('utf-8', 'replace')
    m = re.search(r'^RESULT (.*)$', out, flags=re.M)
    return (m.group(1) if m else None), out
