/* C06-K5: exppp's formatting primitive raw() (src/exppp/exppp.c, real code) as breakLongStr() calls it for a string literal without
 * a break point:  raw( "%.*s", n, text )  with symbolic n in 0..MAXLEN (text concretised to 'a's).  raw() and wrap() format with
 * vsprintf into char buf[10000].  Assert (CBMC built-in bounds/pointer checks): no write past the formatting buffer and no read in
 * front of it, for every n. */
#ifndef MAXLEN
#define MAXLEN 10050
#endif
#define VERIF_INPUTS(S,A) S(unsigned short,len)
#include "verif.h"
#include <stdio.h>
#include <string.h>
#include "express/expr.h"
void raw(const char *fmt, ...);
extern int curpos, indent2;
size_t fwrite(const void *p, size_t sz, size_t n, FILE *f) { (void)p; (void)f; (void)sz; return n; }
static char lit[MAXLEN + 2];
void harness(void) {
    int i;
    VERIF_BEGIN();
    ASSUME(len <= MAXLEN);
#ifdef MINLEN
    ASSUME(len >= MINLEN);
#endif
    for(i = 0; i < MAXLEN; i++) lit[i] = 'a';
    lit[MAXLEN] = 0;
    curpos = 0; indent2 = 4;
#ifdef MINLEN
    /* edge variant: the text is concrete up to MINLEN and its end is symbolic behind that (keeps the first MINLEN loop tests concrete for
     * symbolic execution); the precision argument is the buffer-independent maximum, as for a literal without break point */
    for(i = MINLEN; i < MAXLEN; i++) if(i >= len) lit[i] = 0;
    raw("%.*s", MAXLEN, lit);
#else
    raw("%.*s", (int)len, lit);
#endif
    OBS("len=%d", (int)len);
    CHECK(1, "printed");
    VERIF_END();
}
