from vrun import H
LEVEL_TEXT = ('Bounded model checking (CBMC) of the EXPRESS front end kernels that own fixed-size tables: lexer actions (lexact.c), '
  'the diagnostics buffer (error.c), the pretty printer output buffers (exppp.c) and name buffers of the generators; '
  'CBMC built-in pointer/bounds/overflow checks are the memory-safety assertion, inputs are symbolic lengths and bytes.')
LEX = dict(tracked=['src/express/lexact.c'], cflags=['-I/repo'], models=['lib/cmodels/printf_null.c'])
HARNESSES = [
  H('lex_semicolon_remark', 'c', 'harness/C06/h_lexact.c', defs={'KERNEL': 1, 'MAXLEN': 300}, unwind=310,
    bounds='SCANprocess_semicolon: "; -- remark" with 0..3 blanks and remark length 0..300 (length symbolic, remark bytes concretised to x); real 256-byte last_comment_ buffer',
    assumptions=['yytext matches the scanner rule ";"[ \\t]*"--"[^\\n]*'], out_of_claim='remarks longer than 300 bytes (same code path)', **LEX),
  H('lex_save_comment', 'c', 'harness/C06/h_lexact.c', defs={'KERNEL': 2, 'MAXLEN': 300}, unwind=310,
    bounds='SCANsave_comment + SCANprocess_semicolon(";",0): remark length 0..300 symbolic, content concretised', **LEX),
  H('lex_string', 'c', 'harness/C06/h_lexact.c', defs={'quick': {'KERNEL': 3, 'NB': 6}, 'thorough': {'KERNEL': 3, 'NB': 8}}, unwind={'quick': 10, 'thorough': 12}, mem_gb=36,
    bounds='SCANprocess_string: opening quote + every byte string of <= 6 (8) bytes incl. embedded quotes, NUL-terminated', **LEX),
  H('lex_encoded_string', 'c', 'harness/C06/h_lexact.c', defs={'quick': {'KERNEL': 4, 'NB': 6}, 'thorough': {'KERNEL': 4, 'NB': 10}}, unwind={'quick': 10, 'thorough': 14},
    bounds='SCANprocess_encoded_string: opening double quote + every byte string of <= 6 (10) bytes; reporter stubbed to record its arguments (also C20 call-site check)', **LEX),
  H('pp_raw_short', 'c', 'harness/C06/h_pplong.c', repo_srcs=['src/exppp/exppp.c'], defs={'MAXLEN': 300, 'VERIF_STR_MAX': 310}, unwind=312, object_bits=10,
    cflags=['-I/repo', '-fno-builtin'], models=['lib/cmodels/sprintf_only.c', 'lib/cmodels/printf_null.c'],
    bounds='exppp raw( "%.*s", n, text ) with n = 0..300 symbolic (text concretised): the formatting primitive behind every printed token',
    stubs=['vsprintf: content model', 'fwrite: succeeds', 'fprintf: empty'],
    out_of_claim='texts of 10^4 characters and more: raw()/wrap() format into char buf[10000] with vsprintf and a literal without break point of >= 10000 characters overflows it (seen with the real exppp on a 12000-character literal: 12288 bytes written through the 10000-byte buffer, exit 0); the symbolic execution of the 10^4-iteration copy loops did not finish in 15 min, so this is outside what the check decides'),
]
JOBS = 8
MANIFEST = {
  'level_text': 'Bounded model checking of the lexer actions of the EXPRESS front end that own fixed buffers or copy token text (lexact.c, compiled by goto-cc with the flags of the real build): tail remarks and stand-alone remarks of every length up to 300 bytes against the real 256-byte remark buffer, string and encoded-string literals of every content within the byte bound; the formatting primitive raw() of the pretty printer for every text length 0..300; CBMC built-in pointer/bounds checks are the memory-safety assertion, functional CHECKs pin the token values and the arguments handed to the diagnostics.',
  'level_note': 'Trusted: CBMC, harness assumption that yytext has the shape the scanner rule guarantees. Outside the claim: the generated scanner and parser tables, the parser scope stack (20 nested scopes), resolver null-dereferences on invalid schemas, texts of 10^4 characters and more in the 10000-byte formatting buffers of exppp (an overflow for a break-point-free literal of >= 10000 characters was seen with the real tool; out of reach of the symbolic execution, see DESIGN.md), generator name buffers (see C18 for the Python generator), processing of the shipped schemas, bounded time.',
  'technique': 'CBMC bounded model checking (built-in memory-safety checks) of goto-cc-compiled lexact.c with symbolic token lengths and bytes; ASan replay',
  'design_ref': 'DESIGN.md section 2, C06',
}
