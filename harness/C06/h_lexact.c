/* C06-K1: lexer actions of src/express/lexact.c (real file, #included for its static buffers).
 * yytext has the shape the scanner rule guarantees (stated per kernel); CBMC's built-in pointer/bounds checks are
 * the memory-safety assertion, plus functional CHECKs on the result.
 *   KERNEL 1  SCANprocess_semicolon(yytext, 1): ";" blanks "--" remark   length symbolic 0..MAXLEN, content concretised
 *   KERNEL 2  SCANsave_comment(yytext) then SCANprocess_semicolon(";",0): length symbolic, content concretised
 *   KERNEL 3  SCANprocess_string("'" + <= NB arbitrary bytes)
 *   KERNEL 4  SCANprocess_encoded_string("\"" + <= NB arbitrary bytes): also C20-K3 (arguments handed to the reporter)
 */
#ifndef MAXLEN
#define MAXLEN 300
#endif
#ifndef NB
#define NB 6
#endif
#if KERNEL <= 2
#define VERIF_INPUTS(S,A) S(int,len) S(unsigned char,nblank)
#else
#define VERIF_INPUTS(S,A) A(char,body,NB+1)
#endif
#include "verif.h"
#include "src/express/lexact.c"
YYSTYPE yylval; int yylineno = 7;
static int rep_n; static int rep_code[NB + 2]; static int rep_arg[NB + 2]; static int rep_line[NB + 2];
#include <stdarg.h>
/* CBMC does not promote variadic char arguments; read the low byte there */
#ifdef VERIF_CBMC
#define VA_CHAR(ap) ((int)va_arg(ap, char))
#else
#define VA_CHAR(ap) ((int)(char)va_arg(ap, int))
#endif
void ERRORreport_with_line(enum ErrorCode c, int line, ...) {
    va_list ap; va_start(ap, line);
    if(rep_n < NB + 2) { rep_code[rep_n] = c; rep_line[rep_n] = line; rep_arg[rep_n] = (c == ENCODED_STRING_BAD_DIGIT) ? VA_CHAR(ap) : va_arg(ap, int); rep_n++; }
    va_end(ap);
}
static char yy[MAXLEN + 16];
void harness(void) {
    int i, n = 0;
    VERIF_BEGIN();
#if KERNEL == 1
    ASSUME(len >= 0 && len <= MAXLEN); ASSUME(nblank <= 3);
#ifdef EXCLUDE_KF_C06_1
    ASSUME(len + 2 < 256);
#endif
    yy[n++] = ';';
    for(i = 0; i < 3; i++) if(i < nblank) yy[n++] = ' ';
    yy[n++] = '-'; yy[n++] = '-';
    for(i = 0; i < MAXLEN; i++) if(i < len) yy[n++] = 'x';
    yy[n] = 0;
    { int tok = SCANprocess_semicolon(yy, 1);
      CHECK(tok == TOK_SEMICOLON, "semicolon token");
      CHECK(yylval.string != 0 && yylval.string[0] == '-' && yylval.string[1] == '-', "tail remark text starts at the remark");
      { int l = 0; while(l < 256 && yylval.string[l]) l++; CHECK(l < 256, "saved remark is NUL-terminated inside its buffer"); OBS("saved=%d", l); } }
#elif KERNEL == 2
    ASSUME(len >= 0 && len <= MAXLEN);
    yy[n++] = '-'; yy[n++] = '-';
    for(i = 0; i < MAXLEN; i++) if(i < len) yy[n++] = 'y';
    yy[n] = 0;
    SCANsave_comment(yy);
    { int tok = SCANprocess_semicolon(";", 0);
      CHECK(tok == TOK_SEMICOLON, "semicolon token");
      CHECK(yylval.string == last_comment_, "pending remark is handed to the semicolon");
      { int l = 0; while(l < 256 && yylval.string[l]) l++; CHECK(l < 256, "saved remark is NUL-terminated inside its buffer"); OBS("saved=%d", l); } }
#elif KERNEL == 3
    body[NB] = 0;
    yy[0] = '\'';
    for(i = 0; i <= NB; i++) yy[1 + i] = body[i];
    { int tok = SCANprocess_string(yy); int j = 0, k = 0, ok = 1;
      CHECK(tok == TOK_STRING_LITERAL, "string token");
      /* reference: copy until a lone quote, pairs of quotes become one */
      for(j = 0; j < NB && body[j]; ) {
          if(body[j] != '\'') { if(yylval.string[k] != body[j]) ok = 0; k++; j++; }
          else if(body[j + 1] == '\'') { if(yylval.string[k] != '\'') ok = 0; k++; j += 2; }
          else break;
      }
      if(yylval.string[k] != 0) ok = 0;
      CHECK(ok, "string value = body with quote pairs halved, ending at the closing quote");
      OBS("val=[%s]", yylval.string); }
#else
    body[NB] = 0;
    yy[0] = '"';
    for(i = 0; i <= NB; i++) yy[1 + i] = body[i];
    { int tok = SCANprocess_encoded_string(yy); int last = -1, cnt, bad = 0, j;
      CHECK(tok == TOK_STRING_LITERAL_ENCODED, "encoded string token");
      for(j = 0; j < NB && body[j]; j++) if(body[j] == '"') last = j;
      cnt = 0; for(j = 0; j < NB && body[j] && j != last; j++) cnt++;
      for(j = 0; j < cnt; j++) {
          char c = body[j]; int hex = (c >= '0' && c <= '9') || (c >= 'a' && c <= 'f') || (c >= 'A' && c <= 'F');
          if(!hex) { CHECK(bad < rep_n && rep_code[bad] == ENCODED_STRING_BAD_DIGIT && rep_arg[bad] == c && rep_line[bad] == yylineno, "bad-digit diagnostic carries the offending character and the current line"); bad++; }
      }
      if(cnt % 8) { CHECK(bad < rep_n && rep_code[bad] == ENCODED_STRING_BAD_COUNT && rep_arg[bad] == cnt && rep_line[bad] == yylineno, "bad-count diagnostic carries the digit count"); bad++; }
      CHECK(rep_n == bad, "no other diagnostic is raised");
      OBS("val=[%s] reports=%d", yylval.string, rep_n); }
#endif
    VERIF_END();
}
