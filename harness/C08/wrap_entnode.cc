// extern "C" entry point over EntNode::EntNode(const char**) -- the part of the complex-instance mechanism that makes the
// order in which the parts are written irrelevant (the matcher works on the sorted, duplicate-free name list)
#include "clstepcore/complexSupport.h"
#include "../common/stdstreams.h"
extern "C" {
__attribute__((noinline)) int w_sort(int n, const char *a, const char *b, const char *c, const char *d, char *out /* 4 x 3 bytes */, int *marks) {
    const char *names[5] = { a, b, c, d, 0 };
    names[n] = 0;
    EntNode *en = new EntNode(names);
    int k = 0, m = 0;
    for (EntNode *p = en; p && k < 6; p = p->next, k++) {
        if (k < 4) { const char *nm = p->Name(); out[3*k] = nm[0]; out[3*k+1] = nm[0] ? nm[1] : 0; out[3*k+2] = 0; }
        if (p->marked()) m++;
    }
    *marks = m;
    return k;
}
}
