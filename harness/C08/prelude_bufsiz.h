/* parametric shrink: EntNode::name is char[BUFSIZ+1]; checked with BUFSIZ = 7 */
#include <stdio.h>
#undef BUFSIZ
#define BUFSIZ 7
