/* C08 (order-independence kernel): EntNode::EntNode(const char**) builds, from the entity names of a complex instance in ANY
 * order, a linked list that is strictly sorted (case-insensitively), contains every distinct name exactly once and nothing
 * else, with all marks clear -- so the matcher sees the same list whatever order the parts were written in.
 * K names (forked per query) of 1..2 symbolic lower-case bytes each; duplicates allowed (they must collapse). */
#ifndef K
#define K 3
#endif
#define VERIF_INPUTS(S,A) A(char,n0,3) A(char,n1,3) A(char,n2,3) A(char,n3,3)
#include "verif.h"
int w_sort(int n, const char *a, const char *b, const char *c, const char *d, char *out, int *marks);
static int lt(const char *x, const char *y) { return x[0] < y[0] || (x[0] == y[0] && x[1] < y[1]); }
static int eq(const char *x, const char *y) { return x[0] == y[0] && x[1] == y[1]; }
void harness(void) {
    char *n[4]; char out[12]; int i, j, k, marks, distinct = 0;
    VERIF_BEGIN();
    n[0] = n0; n[1] = n1; n[2] = n2; n[3] = n3;
    for(i = 0; i < 4; i++) { n[i][2] = 0; ASSUME(n[i][0] >= 'a' && n[i][0] <= 'e'); ASSUME(n[i][1] == 0 || (n[i][1] >= 'a' && n[i][1] <= 'e')); }
    for(i = 0; i < K; i++) { int first = 1; for(j = 0; j < i; j++) if(eq(n[i], n[j])) first = 0; distinct += first; }
    k = w_sort(K, n[0], n[1], n[2], n[3], out, &marks);
    OBS("k=%d out=%s,%s,%s,%s", k, out, out + 3, out + 6, out + 9);
    CHECK(k == distinct, "the list has one node per distinct name");
    for(i = 0; i + 1 < 4; i++) if(i + 1 < k) CHECK(lt(out + 3 * i, out + 3 * (i + 1)), "the list is strictly sorted");
    for(i = 0; i < K; i++) { int found = 0; for(j = 0; j < 4; j++) if(j < k && eq(n[i], out + 3 * j)) found = 1; CHECK(found, "every given name is in the list"); }
    for(j = 0; j < 4; j++) if(j < k) { int found = 0; for(i = 0; i < K; i++) if(eq(n[i], out + 3 * j)) found = 1; CHECK(found, "the list contains nothing but the given names"); }
    CHECK(marks == 0, "all marks are clear");
    VERIF_END();
}
