from vrun import H
LEVEL_TEXT = ('Bounded model checking of the order-independence kernel of the complex-instance matcher (EntNode name-list construction, IR-translated real code). '
  'The legality predicate itself (ONEOF/AND/ANDOR matching) could not be decided symbolically (DESIGN.md section 4) and is NOT claimed.')
HARNESSES = [
  H('entnode_sort_k%d' % k, 'irc', 'harness/C08/h_sort.c', wrapper='harness/C08/wrap_entnode.cc', repo_srcs=['src/clstepcore/entnode.cc', 'src/clutils/Str.cc'],
    native_srcs=['src/clstepcore/entnode.cc', 'src/clutils/Str.cc', 'src/clutils/errordesc.cc'],
    models=['lib/cmodels/cxx_rt.c', 'lib/cmodels/printf_null.c'], cflags=['-include', '/verif/harness/C08/prelude_bufsiz.h'], native_cflags=['-include', '/verif/harness/C08/prelude_bufsiz.h'],
    defs={'K': k, 'VSTR_CAP': 8, 'VSTREAM_CAP': 8, 'VOSTREAM_CAP': 8}, unwind=10, object_bits=10, tiers=('quick', 'thorough') if k <= 3 else ('thorough',),
    bounds='%d entity names of 1..2 bytes over a..e each, in every order, duplicates allowed; EntNode::name[BUFSIZ+1] with BUFSIZ shrunk to 7' % k,
    samples=[{'n0': 'b', 'n1': 'a', 'n2': 'c', 'n3': 'd'}, {'n0': 'ab', 'n1': 'ab', 'n2': 'a', 'n3': 'e'}, {'n0': 'e', 'n1': 'd', 'n2': 'c', 'n3': 'b'}],
    stubs=['operator new = calloc', 'vstd model'], out_of_claim='acceptance <=> legality, refusal confined to the instance, STEPcomplex::Initialize, expressbuild.cc') for k in (2, 3, 4)
]
JOBS = 6
MANIFEST = {
  'level_text': 'Bounded model checking of the one kernel of C08 that could be encoded: for every set of 2..4 entity names (every order, duplicates included) the name list handed to the matcher is strictly sorted, duplicate-free and a permutation of the input -- i.e. the order in which the parts of a complex instance are written cannot matter to the matcher. The legality predicate (acceptance iff ONEOF/AND/ANDOR constraints hold) is NOT decided by this check.',
  'level_note': 'Deliberately partial: three symbolic formulations of ComplexCollect::supports/ComplexList::matches gave no verdict in 600-900 s (symbolic heap shape + virtual dispatch), concrete subsets take 2 s each but would be enumeration; see DESIGN.md section 4. A ONEOF violation crashes the matcher on the pinned tree (seen by reading/probing) -- recorded in DESIGN.md, not detected by a registered check.',
  'technique': 'CBMC bounded model checking of IR-translated EntNode list construction with symbolic names (order-independence only)',
  'design_ref': 'DESIGN.md section 3 C08 and section 4',
}
