// extern "C" entry points over STEPfile::EntityWfState and STEPfile::WriteWorkingData (STEPfile.cc) on a raw STEPfile object
// whose instance manager holds harness instances with a trivial STEPwrite
#define private public
#define protected public
#include "cleditor/STEPfile.h"
#undef private
#undef protected
#include <sstream>
#include <stdlib.h>
#include "../common/stdstreams.h"
class VInst : public SDAI_Application_instance { public:
    virtual void STEPwrite( ostream & out = cout, const char * currSch = 0, int writeComments = 1 ) { (void)currSch; (void)writeComments; out << '#' << StepFileId() << ';'; } };
union SFStore { STEPfile f; SFStore() {} ~SFStore() {} };
// layout twin of the first members of STEPfile (vptr, InstMgr & _instances, Registry & _reg)
struct STEPfileHead { void *vptr; InstMgr *inst; Registry *reg; };
extern "C" {
__attribute__((noinline)) int w_state_of_letter(int c) {
    STEPfile *sf = (STEPfile *)calloc(1, sizeof(STEPfile));
    int r = (int)sf->EntityWfState((char)c);
    free(sf); return r;
}
// n instances (ids 1..n) with the given states; returns the text written by WriteWorkingData
__attribute__((noinline)) int w_write_working(int n, const int *states, char *out, int cap) {
    static SFStore sfs;   // zero-initialised static storage of the right TYPE; STEPfile's constructor is not run
    STEPfile *sf = &sfs.f;
    InstMgr *im = new InstMgr(0);
    // (default 1024-slot manager array)
    *(InstMgr **)((char *)sf + sizeof(void *)) = im;   // bind the reference member _instances (first member after the vptr)
    for(int i = 0; i < n && i < 3; i++) { VInst *v = new VInst(); v->StepFileId(i + 1); im->Append(v, (stateEnum)states[i]); }
    std::ostringstream o;
    sf->WriteWorkingData(o, 0);
#ifdef VSTD
    int i = 0; for(; i < (int)o.on && i < cap - 1; i++) out[i] = o.ob[i]; out[i] = 0;   // read the model stream buffer directly (keeps the model string capacity small)
    return (int)o.on;
#else
    std::string s = o.str(); int i = 0; for(; i < (int)s.size() && i < cap - 1; i++) out[i] = s[i]; out[i] = 0;
    return (int)s.size();
#endif
}
}
