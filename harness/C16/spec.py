from vrun import H
LEVEL_TEXT = ('Bounded model checking of the state-letter kernels of the working-session format (STEPfile::WriteWorkingData, STEPfile::EntityWfState), IR-translated real code on a raw STEPfile '
  'object; reading a working file back (two passes) is not encoded.')
SRCS = ['src/cleditor/STEPfile.cc', 'src/cleditor/STEPfile.inline.cc', 'src/clstepcore/instmgr.cc', 'src/clstepcore/mgrnode.cc', 'src/clstepcore/mgrnodearray.cc', 'src/clstepcore/mgrnodelist.cc', 'src/clutils/gennodearray.cc',
        'src/clutils/gennode.cc', 'src/clutils/gennodelist.cc', 'src/clstepcore/sdaiApplication_instance.cc', 'src/cldai/sdaiDaObject.cc', 'src/cldai/sdaiObject.cc',
        'src/clstepcore/dispnode.cc', 'src/clstepcore/dispnodelist.cc', 'src/clstepcore/STEPattributeList.cc', 'src/clstepcore/SingleLinkList.cc', 'src/clutils/Str.cc',
        'src/cldai/sdaiString.cc', 'src/clstepcore/sdai.cc', 'src/cldai/sdaiEnum.cc']
HARNESSES = [
  H('working_data_n%d' % n, 'irc', 'harness/C16/h_wf.c', wrapper='harness/C16/wrap_wf.cc', repo_srcs=SRCS, irc_extra_cc=['harness/common/errordesc_stub.cc'],
    native_lib=['src/clstepcore', 'src/clutils', 'src/cldai', 'src/cleditor'], models=['lib/cmodels/cxx_rt.c', 'lib/cmodels/printf_null.c', 'lib/cmodels/sprintf_null.c', 'lib/cmodels/mem_loops.c'],
    defs={'N': n, 'VSTR_CAP': 8, 'VSTREAM_CAP': 8, 'VOSTREAM_CAP': 40, 'VCONT_CAP': 4}, unwind=44, object_bits=11,
    bounds='%d instances with symbolic editing states over {complete, incomplete, delete, new, none}; any letter byte for the inverse mapping' % n,
    samples=[{'st': 1, 'letter': 67}, {'st': 4, 'letter': 88}],
    stubs=['STEPfile: raw zeroed storage with _instances bound to a real InstMgr (no header instances -> empty schema name)', 'instances: harness subclass whose STEPwrite prints #id;', 'vstd model'],
    allow_undef='*',
    out_of_claim='reading a working-session file (ReadData1/ReadData2 state prefixes, deleted instances skipped, incomplete instances restored), byte-identical re-save, instance contents') for n in (1, 2, 3)
]
JOBS = 3
MANIFEST = {
  'disabled': True,   # not registered: no verdict within 300 s even for one instance (measured); C16 is listed under not_applicable
  'level_text': 'Bounded model checking of the two state-letter kernels: for 1..3 instances with arbitrary editing states WriteWorkingData writes each instance once, in manager order, preceded by a letter that EntityWfState maps back to exactly that state (instances without state are left out), and every other letter maps to "no state". The reading side of the working-session format is NOT claimed.',
  'level_note': 'Deliberately small claim (see DESIGN.md C16). Trusted: CBMC, ir2c, vstd; STEPfile object is raw storage; undefined callees of unreached STEPfile.cc functions are tolerated (allow_undef=*: the whole translation unit is linked, the harness reaches only the two kernels).',
  'technique': 'CBMC bounded model checking of IR-translated STEPfile::WriteWorkingData / EntityWfState with symbolic instance states',
  'design_ref': 'DESIGN.md section 3, C16',
}
