/* C16 (state-letter kernels only): STEPfile::WriteWorkingData writes, before each instance, the letter of its editing state,
 * in manager order, and STEPfile::EntityWfState maps that letter back to the same state (the pair is what restores the
 * per-instance state when a working-session file is read back); an instance without state information is not written.
 * N instances (forked), states symbolic over {complete, incomplete, delete, new, none}.                                   */
#ifndef N
#define N 2
#endif
#define VERIF_INPUTS(S,A) A(unsigned char,st,3) S(unsigned char,letter)
#include "verif.h"
int w_state_of_letter(int c); int w_write_working(int n, const int *states, char *out, int cap);
enum { noStateSE, completeSE, incompleteSE, deleteSE, newSE };
void harness(void) {
    int states[3], i, p, len; char out[64];
    VERIF_BEGIN();
    for(i = 0; i < 3; i++) { ASSUME(st[i] <= 4); states[i] = st[i]; }
#ifdef FIX_ST0
    states[0] = FIX_ST0;   /* forked per query */
#endif
    len = w_write_working(N, states, out, 64);
    OBS("out=[%s]", out);
    /* expected layout: "DATA;\n" { letter "#" id ";" } "ENDSEC;\n" */
    CHECK(out[0] == 'D' && out[1] == 'A' && out[2] == 'T' && out[3] == 'A' && out[4] == ';' && out[5] == '\n', "data section header");
    p = 6;
    for(i = 0; i < N; i++) {
        if(states[i] == noStateSE) continue;
        CHECK(w_state_of_letter(out[p]) == states[i], "the letter written before an instance maps back to that instance's state");
        CHECK(out[p + 1] == '#' && out[p + 2] == '1' + i && out[p + 3] == ';', "instances are written in manager order, each exactly once");
        p += 4;
    }
    CHECK(out[p] == 'E' && out[p + 1] == 'N' && out[p + 2] == 'D' && out[p + 3] == 'S' && out[p + 4] == 'E' && out[p + 5] == 'C' && out[p + 6] == ';' && out[p + 7] == '\n' && len == p + 8, "nothing else is written");
    /* letters other than the four state letters carry no state */
    if(letter != 'C' && letter != 'I' && letter != 'N' && letter != 'D') CHECK(w_state_of_letter(letter) == noStateSE, "an unknown letter maps to 'no state'");
    VERIF_END();
}
