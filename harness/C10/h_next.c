/* C10-K1: lazyP21DataSectionReader::nextInstance() -- readInstanceNumber, getDelimitedKeyword, seekInstanceEnd,
 * findNormalString, skipWS (sectionReader.cc) -- on one data-section record
 *       "#" d [d] blanks? "=" blanks? KW "(" body ")" blanks? ";"
 * with symbolic id digits, keyword letters and a symbolic body of <= NB bytes over { # 1 2 ' / * ( ) , blank a }.
 * A reference scanner in the harness (strings with doubled quotes, comments, parenthesis depth) computes what the
 * index must contain.  Assert: instance number, entity keyword and the list of forward references ("#n" outside strings
 * and comments, in order) are exact, and the scan ends right behind the terminating ";" of THIS record; for a body the
 * reference rejects (unbalanced, "#" not followed by digits, stray "=" or "/") the record is not indexed (begin = -1). */
#ifndef NB
#define NB 5
#endif
#define VERIF_INPUTS(S,A) A(char,body,NB+1) S(unsigned char,d1) S(unsigned char,d2) S(unsigned char,k2) S(unsigned char,sp)
#include "verif.h"
long w_next_instance(const char *text, char *kw, int kwcap, long *refs, int *nrefs, long *begin, long *endpos, int *good);
long w_seek_end(const char *text, long *refs, int *nrefs, long *endpos, int *good);
static int alpha(char c) { return c == '#' || c == '1' || c == '2' || c == '\'' || c == '/' || c == '*' || c == '(' || c == ')' || c == ',' || c == ' ' || c == 'a'; }
static int isdig(char c) { return c >= '0' && c <= '9'; }
static char text[NB + 16];
void harness(void) {
    int i, n = 0, blen = 0, b0, valid = 1, depth = 1, endref = -1, nref = 0; long ref[4], id, got, refs[4], begin, endpos; int nrefs, good; char kw[8];
    VERIF_BEGIN();
    body[NB] = 0;
    for(i = 0; i < NB; i++) { if(body[i] == 0) break; ASSUME(alpha(body[i])); blen++; }
    for(i = 0; i < NB; i++) if(i > blen) ASSUME(body[i] == 0);
    ASSUME(d1 <= 9 && d2 <= 10 && (d1 >= 1 || (d2 >= 1 && d2 <= 9)));   /* d2 == 10: one-digit id; d1 == 0: leading zero ("#07" is instance 7: ids are decimal) */
#ifdef SEEK_ONLY
    id = 0;   /* the stream starts at the opening parenthesis */
#else
    text[n++] = '#'; text[n++] = (char)('0' + d1); id = d1; if(d2 < 10) { text[n++] = (char)('0' + d2); id = id * 10 + d2; }
    if(sp & 1) text[n++] = ' ';
    text[n++] = '='; if(sp & 2) text[n++] = ' ';
    text[n++] = 'A'; if(k2 & 1) text[n++] = 'B';
#endif
    text[n++] = '('; b0 = n;
    for(i = 0; i < NB; i++) if(i < blen) text[n++] = body[i];
    text[n++] = ')'; if(sp & 4) text[n++] = ' '; text[n++] = ';'; text[n] = 0;
    /* reference scan from just behind the opening parenthesis */
    { int p = b0, k;
      for(k = 0; k < NB + 4 && valid && endref < 0; k++) {
          char c = text[p];
          if(c == 0) valid = 0;
          else if(c == '(') { depth++; p++; }
          else if(c == ')') { depth--; p++; if(depth == 0) { int q = p; while(text[q] == ' ') q++; if(text[q] == ';') endref = q + 1; else { /* not the end of the record: keep scanning */ } } }
          else if(c == '\'') { /* string: up to the closing quote, '' is an escaped quote */ int q = p + 1, closed = 0; while(text[q] && !closed) { if(text[q] == '\'') { if(text[q + 1] == '\'') q += 2; else { q++; closed = 1; } } else q++; } if(!closed) valid = 0; p = q; }
          else if(c == '/') { if(text[p + 1] == '*') { int q = p + 2, closed = 0; while(text[q] && !closed) { if(text[q] == '*' && text[q + 1] == '/') { q += 2; closed = 1; } else q++; } if(!closed) valid = 0; p = q; } else valid = 0; }
          else if(c == '=') valid = 0;
          else if(c == '#') { int q = p + 1; long v = 0; while(text[q] == ' ') q++; if(!isdig(text[q])) valid = 0; else { while(isdig(text[q])) { v = v * 10 + (text[q] - '0'); q++; } if(nref < 4) ref[nref] = v; nref++; p = q; } }
          else p++;
      }
      if(endref < 0) valid = 0;
      /* shapes the reference does not try to model precisely are excluded: depth dropping below zero or a second record start */
      ASSUME(depth >= 0);
    }
#ifdef SEEK_ONLY
    got = w_seek_end(text, refs, &nrefs, &endpos, &good);
    OBS("text=[%s] got=%ld nrefs=%d r0=%ld end=%ld good=%d", text, got, nrefs, nrefs > 0 ? refs[0] : -1L, endpos, good);
    if(valid) {
        CHECK(got == endref, "the end of the record is right behind its terminating semicolon");
        CHECK(nrefs == nref, "the forward-reference list has one entry per #n outside strings and comments");
        for(i = 0; i < 4; i++) if(i < nref && i < nrefs) CHECK(refs[i] == ref[i], "forward references are exact and in order");
        CHECK(endpos == endref, "the scan stops right behind the terminating semicolon of this record");
    } else {
        CHECK(got == -1, "a parameter list the scanner cannot delimit is reported as such");
    }
    VERIF_END();
    return;
#endif
    got = w_next_instance(text, kw, 8, refs, &nrefs, &begin, &endpos, &good);
    OBS("text=[%s] got=%ld kw=[%s] nrefs=%d r0=%ld begin=%ld end=%ld good=%d", text, got, kw, nrefs, nrefs > 0 ? refs[0] : -1L, begin, endpos, good);
    if(valid) {
        CHECK(got == id && begin == 0, "the record is indexed under its own instance number");
        CHECK(kw[0] == 'A' && ((k2 & 1) ? (kw[1] == 'B' && kw[2] == 0) : kw[1] == 0), "the entity keyword is exact");
        CHECK(nrefs == nref, "the forward-reference list has one entry per #n outside strings and comments");
        for(i = 0; i < 4; i++) if(i < nref && i < nrefs) CHECK(refs[i] == ref[i], "forward references are exact and in order");
        CHECK(endpos == endref, "the scan ends right behind the terminating semicolon of this record");
    } else {
        CHECK(begin == -1 && kw[0] == 0, "a record the scanner cannot delimit is not indexed");
    }
    VERIF_END();
}
