/* C10-K0: assume-guarantee lemma for the scanner harnesses.  GetLiteralStr (src/clutils/Str.cc, real code) and the string-free
 * contract GetLiteralStr_contract (wrap_lazy.cc) are run on the same symbolic stream of <= NG bytes over
 * { quote backslash S a blank # ( } ; assert that the stream effect (position, good, eof) and the error severity agree.
 * seek_end and next_instance then use the contract in place of GetLiteralStr. */
#ifndef NG
#define NG 6
#endif
#define VERIF_INPUTS(S,A) A(char,txt,NG+1)
#include "verif.h"
void w_gls(const char *text, int which, long *endpos, int *good, int *eof, int *sev, int *nonempty);
static int alpha(char c) { return c == '\'' || c == '\\' || c == 'S' || c == 'a' || c == ' ' || c == '#' || c == '('; }
void harness(void) {
    int i, stop = 0; long p0, p1; int g0, g1, e0, e1, s0, s1, n0, n1;
    VERIF_BEGIN();
    txt[NG] = 0;
    for(i = 0; i < NG; i++) { if(txt[i] == 0) stop = 1; if(stop) ASSUME(txt[i] == 0); else ASSUME(alpha(txt[i])); }
    w_gls(txt, 0, &p0, &g0, &e0, &s0, &n0);
    w_gls(txt, 1, &p1, &g1, &e1, &s1, &n1);
    OBS("text=[%s] real: pos=%ld good=%d eof=%d sev=%d  contract: pos=%ld good=%d eof=%d sev=%d", txt, p0, g0, e0, s0, p1, g1, e1, s1);
    CHECK(p0 == p1, "the contract leaves the stream where GetLiteralStr leaves it");
    CHECK(g0 == g1 && e0 == e1, "the contract leaves the stream state GetLiteralStr leaves");
    CHECK(s0 == s1, "the contract reports the error GetLiteralStr reports");
    CHECK(n0 == n1, "the contract returns an empty text exactly when GetLiteralStr does");
    VERIF_END();
}
