// extern "C" entry point over lazyP21DataSectionReader::nextInstance() (readInstanceNumber + getDelimitedKeyword +
// seekInstanceEnd of sectionReader.cc).  The reader, its lazyFileReader and lazyInstMgr are zeroed typed storage with
// only the fields the scanner touches filled in (their constructors open files and build judy arrays).
#define private public
#define protected public
#include "cllazyfile/lazyP21DataSectionReader.h"
#include "cllazyfile/lazyFileReader.h"
#include "cllazyfile/lazyInstMgr.h"
#undef private
#undef protected
#include <fstream>
#ifndef VSTD
#include <unistd.h>
#include <stdio.h>
#endif
#include "../common/stdstreams.h"
#include "../common/gls_contract.h"
#ifndef VSTD
// native builds read the text through a real std::ifstream: a scratch file under /var/tmp (or /tmp); an unusable scratch directory is an
// environment problem, not a finding (exit 77 = "assumption false" for the runner)
static void verif_open_text(std::ifstream &file, const char *text) {
    static char path[64]; const char *dirs[2] = { "/var/tmp", "/tmp" }; FILE *fp = 0;
    for(int k = 0; k < 2 && !fp; k++) { snprintf(path, sizeof path, "%s/verif_c10_%d.p21", dirs[k], (int)getpid()); fp = fopen(path, "w"); }
    if(!fp) { printf("ASSUME-FALSE scratch file\n"); fflush(stdout); _exit(77); }
    fputs(text, fp); fclose(fp); file.open(path); unlink(path);
}
#endif
union RdStore { lazyP21DataSectionReader r; RdStore() {} ~RdStore() {} };
union FrStore { lazyFileReader f; FrStore() {} ~FrStore() {} };
union ImStore { lazyInstMgr m; ImStore() {} ~ImStore() {} };
extern "C" {
// scans one instance from `text`; returns the instance number (0 = none); name -> kw; forward references -> refs[]; *endpos = stream position afterwards
__attribute__((noinline)) long w_next_instance(const char *text, char *kw, int kwcap, long *refs, int *nrefs, long *begin, long *endpos, int *good) {
    static RdStore rs; static FrStore fs; static ImStore ms; static ErrorDescriptor e1, e2;
    std::ifstream file;
#ifdef VSTD
    file.__load(text); file.opened = true;
#else
    verif_open_text(file, text);
#endif
    lazyP21DataSectionReader *r = &rs.r;
    ms.m._errors = &e1;
    fs.f._parent = &ms.m; fs.f._fileID = 0;
    r->_lazyFile = &fs.f;
    *(std::ifstream **)((char *)r + 2 * sizeof(void *)) = &file;     // bind the reference member _file (third word: vptr, _lazyFile, _file)
    r->sectionReader::_error = &e2; r->_sectionID = 0; r->_fileID = 0;
    namedLazyInstance i = r->lazyP21DataSectionReader::nextInstance();
    int k = 0; if(i.name) for(; i.name[k] && k < kwcap - 1; k++) kw[k] = i.name[k]; kw[k] = 0;
    // on failure nextInstance deletes refs and leaves the pointer dangling; callers test begin first
    *nrefs = 0; if(i.loc.begin >= 0 && i.refs) { for(size_t j = 0; j < i.refs->size() && j < 4; j++) refs[j] = (long)(*i.refs)[j]; *nrefs = (int)i.refs->size(); }
    *begin = (long)i.loc.begin; *good = file.good() ? 1 : 0; *endpos = verif_pos(file);
    return (long)i.loc.instance;
}
#ifndef GLS_CONTRACT
// runs the real GetLiteralStr (which = 0) or its contract (which = 1) on `text`; reports the stream effect and the error severity
__attribute__((noinline)) void w_gls(const char *text, int which, long *endpos, int *good, int *eof, int *sev, int *nonempty) {
    ErrorDescriptor e;
    std::ifstream file;
#ifdef VSTD
    file.__load(text); file.opened = true;
#else
    verif_open_text(file, text);
#endif
    std::string r = which ? GetLiteralStr_contract(file, &e) : GetLiteralStr(file, &e); *nonempty = r.empty() ? 0 : 1;
    *good = file.good() ? 1 : 0; *eof = file.eof() ? 1 : 0; *sev = (int)e.severity(); *endpos = verif_pos(file);
}
#endif
// sectionReader::seekInstanceEnd(&refs) alone, the stream positioned at the opening parenthesis of the parameter list; returns the end position (-1: not delimited)
struct SeekReader : sectionReader {   // concrete subclass: the real sectionReader constructor binds _file / _lazyFile / _error
    SeekReader(lazyFileReader *p, std::ifstream &f) : sectionReader(p, f, 0, 0) {}
    void findSectionStart() {}
    const namedLazyInstance nextInstance() { namedLazyInstance i; i.refs = 0; i.name = 0; i.loc.begin = -1; i.loc.instance = 0; return i; }
};
// sectionReader::readInstanceNumber() alone on "#<digits> =" ; returns the number (0: none); *pos = stream position afterwards
__attribute__((noinline)) long w_read_instno(const char *text, long *pos, int *good) {
    static FrStore fs; static ImStore ms; static ErrorDescriptor e1;
    std::ifstream file;
#ifdef VSTD
    file.__load(text); file.opened = true;
#else
    verif_open_text(file, text);
#endif
    ms.m._errors = &e1;
    fs.f._parent = &ms.m; fs.f._fileID = 0;
    SeekReader sr(&fs.f, file);
    long id = (long)sr.readInstanceNumber();
    *good = file.good() ? 1 : 0; *pos = verif_pos(file);
    return id;
}
__attribute__((noinline)) long w_seek_end(const char *text, long *refs, int *nrefs, long *endpos, int *good) {
    static FrStore fs; static ImStore ms; static ErrorDescriptor e1;
    std::ifstream file;
#ifdef VSTD
    file.__load(text); file.opened = true;
#else
    verif_open_text(file, text);
#endif
    ms.m._errors = &e1;
    fs.f._parent = &ms.m; fs.f._fileID = 0;
    SeekReader sr(&fs.f, file); SeekReader *r = &sr;
    instanceRefs *v = 0;
    long end = (long)r->sectionReader::seekInstanceEnd(&v);
    *nrefs = 0; if(v) { for(size_t j = 0; j < v->size() && j < 4; j++) refs[j] = (long)(*v)[j]; *nrefs = (int)v->size(); }
    *good = file.good() ? 1 : 0; *endpos = verif_pos(file);
    return end;
}
}
