/* C10-K2: sectionReader::readInstanceNumber() -- the instance name of a data-section record -- on "#" d1 [d2 [d3]] [blank] "=" [blank] "X"
 * with symbolic decimal digits (leading zeros included) and blanks.  Part 21 instance names are DECIMAL digit strings: "#010" is
 * instance 10, whatever radix conventions the C library knows.  Assert: the number returned is the decimal value of the digits and
 * the stream is right behind the "=" sign; a name without digits yields 0. */
#define VERIF_INPUTS(S,A) S(unsigned char,d1) S(unsigned char,d2) S(unsigned char,d3) S(unsigned char,sp)
#include "verif.h"
long w_read_instno(const char *text, long *pos, int *good);
static char text[12];
void harness(void) {
    int n = 0, good, nd = 0; long id = 0, got, pos, eqpos;
    VERIF_BEGIN();
    ASSUME(d1 <= 10 && d2 <= 10 && d3 <= 10);          /* 10: digit absent */
    ASSUME(!(d1 == 10 && (d2 < 10 || d3 < 10)) && !(d2 == 10 && d3 < 10));   /* digits are contiguous */
    text[n++] = '#';
    if(d1 < 10) { text[n++] = (char)('0' + d1); id = d1; nd++; }
    if(d2 < 10) { text[n++] = (char)('0' + d2); id = id * 10 + d2; nd++; }
    if(d3 < 10) { text[n++] = (char)('0' + d3); id = id * 10 + d3; nd++; }
    if(sp & 1) text[n++] = ' ';
    text[n++] = '='; eqpos = n;
    if(sp & 2) text[n++] = ' ';
    text[n++] = 'X'; text[n] = 0;
    got = w_read_instno(text, &pos, &good);
    OBS("text=[%s] got=%ld pos=%ld good=%d", text, got, pos, good);
    if(nd > 0 && id > 0) { CHECK(got == id, "the instance number is the DECIMAL value of the digits"); CHECK(pos == eqpos, "the stream is right behind the = sign"); }
    if(nd == 0) CHECK(got == 0, "a name without digits is not an instance number");
    VERIF_END();
}
