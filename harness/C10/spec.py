from vrun import H
LEVEL_TEXT = ('Bounded model checking of the record scanner of the lazy loader (lazyP21DataSectionReader::nextInstance and the sectionReader helpers it calls, IR-translated real code) '
  'against a reference scanner, for every record body within the byte bound.')
SRCS = ['src/cllazyfile/sectionReader.cc', 'src/cllazyfile/lazyP21DataSectionReader.cc', 'src/cllazyfile/lazyDataSectionReader.cc', 'src/clutils/Str.cc', 'src/clstepcore/sdai.cc', 'src/cldai/sdaiEnum.cc', 'src/cldai/sdaiString.cc']
FNS = '_ZN13sectionReader16findNormalStringERKSt6stringb'
SRCS_NOSTR = SRCS   # Str.cc stays linked; its GetLiteralStr is compiled under another name (RENAME) and the proven contract takes its place
RENAME = {'src/clutils/Str.cc': ['-DGetLiteralStr=GetLiteralStr__real']}
COMMON = dict(wrapper='harness/C10/wrap_lazy.cc', irc_extra_cc=['harness/common/errordesc_stub.cc'], entry='harness',
    cflags=['-I/repo/src/cllazyfile', '-I/repo/include/cllazyfile', '-I/repo/include/clutils', '-I/repo/src/clutils'], native_cflags=['-I/repo/src/cllazyfile', '-I/repo/include/cllazyfile', '-I/repo/src/clutils', '-fno-sanitize=vptr'],
    native_lib=['src/clstepcore', 'src/clutils', 'src/cldai', 'src/cleditor', 'src/cllazyfile'],
    models=['lib/cmodels/cxx_rt.c', 'lib/cmodels/printf_null.c', 'lib/cmodels/sprintf_null.c'], object_bits=11, allow_undef='*', mem_gb=40)
HARNESSES = [
  H('gls_equiv', 'irc', 'harness/C10/h_gls.c', repo_srcs=SRCS,
    defs={'quick': {'NG': 6, 'VSTR_CAP': 8, 'VSTREAM_CAP': 8, 'VOSTREAM_CAP': 4, 'VCONT_CAP': 4}, 'thorough': {'NG': 9, 'VSTR_CAP': 11, 'VSTREAM_CAP': 11, 'VOSTREAM_CAP': 4, 'VCONT_CAP': 4}},
    unwind={'quick': 10, 'thorough': 13}, timeout={'quick': 900, 'thorough': 3600},
    bounds='every stream of <= 6 (9) bytes over {quote backslash S a blank # (}',
    samples=[{'txt': "'a'"}, {'txt': "'a''a' #"}, {'txt': "'\\\\S\\\\'a'"}, {'txt': " 'a"}, {'txt': "a'a'"}, {'txt': "''''"}],
    stubs=['std::ifstream: vstd in-memory stream', 'ErrorDescriptor: severity-only stub (harness/common/errordesc_stub.cc)'],
    out_of_claim='the text GetLiteralStr returns beyond its emptiness (the scanner call sites discard it; the eager reader\'s use is checked under C09)', **COMMON),
  H('instance_number', 'irc', 'harness/C10/h_instno.c', repo_srcs=SRCS,
    defs={'VSTR_CAP': 6, 'VSTREAM_CAP': 10, 'VOSTREAM_CAP': 8, 'VCONT_CAP': 4}, unwind=24, timeout={'quick': 900, 'thorough': 2700},
    bounds='record start # d1 [d2 [d3]] [blank] = [blank] X with symbolic decimal digits (leading zeros included)',
    samples=[{'d1': 1, 'd2': 2, 'd3': 10, 'sp': 0}, {'d1': 0, 'd2': 1, 'd3': 0, 'sp': 3}, {'d1': 10, 'd2': 10, 'd3': 10, 'sp': 1}, {'d1': 0, 'd2': 8, 'd3': 10, 'sp': 0}],
    stubs=['lazyFileReader / lazyInstMgr: zeroed typed storage', 'std::ifstream: vstd in-memory stream', 'strtoull: libc model (bases 0/8/10/16, diffed against glibc)'],
    out_of_claim='names of more than three digits (overflow handling of 20-digit names), comments in front of the name', **COMMON),
  H('seek_end', 'irc', 'harness/C10/h_next.c', repo_srcs=SRCS_NOSTR, irc_src_flags=RENAME,
    defs={'quick': {'SEEK_ONLY': 1, 'GLS_CONTRACT': 1, 'NB': 4, 'VSTR_CAP': 4, 'VSTREAM_CAP': 9, 'VOSTREAM_CAP': 4, 'VCONT_CAP': 4}, 'thorough': {'SEEK_ONLY': 1, 'GLS_CONTRACT': 1, 'NB': 5, 'VSTR_CAP': 4, 'VSTREAM_CAP': 10, 'VOSTREAM_CAP': 4, 'VCONT_CAP': 4}},
    unwind={'quick': 9, 'thorough': 10}, timeout={'quick': 1500, 'thorough': 7200},
    bounds='parameter list ( body ) [blank] ; with body = every byte string of <= 4 (5) bytes over {# 1 2 quote / * ( ) , blank a}',
    samples=[{'body': '#1,#2'}, {'body': "'#1'"}, {'body': '/*#1*/'}, {'body': '(#2)'}, {'body': "'a"}, {'body': '# a'}, {'body': "''';"}, {'body': '/*/*'}],
    stubs=['GetLiteralStr: replaced by GetLiteralStr_contract, proven equivalent in stream effect by gls_equiv', 'reader / lazyFileReader / lazyInstMgr: zeroed typed storage with only the fields the scanner touches (no judy arrays, no file)', 'std::ifstream: vstd in-memory stream', 'unreached callees of the linked translation units may lack bodies (allow_undef=*)'],
    out_of_claim='agreement with the eager reader, the reverse-reference table and dependency closure (judy arrays), loadInstance, header section, complex instances, multi-record files', **COMMON),
  H('next_instance', 'irc', 'harness/C10/h_next.c', repo_srcs=SRCS_NOSTR, irc_src_flags=RENAME, tiers=('thorough',),   # 28 min (measured): thorough tier only
    defs={'GLS_CONTRACT': 1, 'NB': 1, 'VSTR_CAP': 6, 'VSTREAM_CAP': 14, 'VOSTREAM_CAP': 4, 'VCONT_CAP': 4},
    unwind=14, timeout=7200,
    bounds='one record #d[d] = A[B] ( body ) ; with every combination of optional blanks, one- or two-digit ids incl. a leading zero, one- or two-letter keyword; body = every byte string of <= 1 byte over {# 1 2 quote / * ( ) , blank a} (longer bodies: seek_end)',
    samples=[{'body': '#1,#2', 'd1': 5, 'd2': 10, 'k2': 0, 'sp': 0}, {'body': "'#1'", 'd1': 1, 'd2': 2, 'k2': 1, 'sp': 7}, {'body': '/*#1*/', 'd1': 3, 'd2': 10, 'k2': 0, 'sp': 1}, {'body': '(#2)', 'd1': 4, 'd2': 10, 'k2': 1, 'sp': 2}, {'body': "'a", 'd1': 4, 'd2': 10, 'k2': 1, 'sp': 0}, {'body': '# a', 'd1': 4, 'd2': 10, 'k2': 1, 'sp': 0}],
    stubs=['GetLiteralStr: replaced by GetLiteralStr_contract, proven equivalent in stream effect by gls_equiv', 'reader / lazyFileReader / lazyInstMgr: zeroed typed storage with only the fields the scanner touches (no judy arrays, no file)', 'std::ifstream: vstd in-memory stream', 'unreached callees of the linked translation units may lack bodies (allow_undef=*)'],
    out_of_claim='agreement with the eager reader, the reverse-reference table and dependency closure (judy arrays), loadInstance, header section, complex instances, multi-record files', **COMMON),
]
JOBS = 2
MANIFEST = {
  'level_text': 'Bounded model checking of the record scanner of the lazy loader: for every data-section record within the byte bound (symbolic instance number, keyword, blanks and parameter bytes over # digits quote / * ( ) , blank letter) lazyP21DataSectionReader::nextInstance / sectionReader::seekInstanceEnd index the record under its own number (the decimal value of the digits, leading zeros included) and keyword, list exactly the #n references that stand outside strings and comments, in order, stop right behind the record\'s own semicolon, and do not index a record they cannot delimit. GetLiteralStr is replaced by a string-free contract that a separate query proves equivalent in stream effect (assume-guarantee).',
  'level_note': 'Trusted: CBMC, ir2c, vstd stream model, the reference scanner in the harness. Outside the claim (see not-applicable part in DESIGN.md section 5): the judy-array index and reference tables, reverse table and dependency closure, loadInstance and agreement with the eager reader, header section, multi-record files, complex instances, bodies beyond the byte bound.',
  'technique': 'CBMC bounded model checking of IR-translated sectionReader/lazyP21DataSectionReader scanners against a reference scanner, with an SMT-proven contract for GetLiteralStr (assume-guarantee)',
  'design_ref': 'DESIGN.md section 2, C10',
}
