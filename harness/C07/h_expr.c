/* C07-K1: operator parenthesisation of the pretty printer -- EXPR__out / EXPRop__out / EXPRop2__out / EXPRop1_out of
 * src/exppp/pretty_expr.c (real code) on expression trees over the identifiers a, b, c:
 *     L = (a o1 b) o2 c        R = a o1 (b o2 c)            with SYMBOLIC binary operators o1, o2.
 * The printed text is captured through harness versions of raw()/wrap() (exppp.c's formatting buffers are not the subject).
 * Assert (the printed expression must denote the tree it was printed from, "up to redundant parentheses"):
 *     L and R print the same text only if the two operators are the same ASSOCIATIVE operator
 *     (AND, OR, XOR, ANDOR, +, *, ||), for which both groupings denote the same value.
 * Types are hand-built (op_ / identifier_ type bodies); goto-cc uses the shadow express headers (see DESIGN.md). */
#define VERIF_INPUTS(S,A) S(unsigned char,o1) S(unsigned char,o2)
#include "verif.h"
#include <stdio.h>
#include <stdarg.h>
#include <string.h>
#include "express/expr.h"
#include "express/type.h"
#include "src/exppp/pretty_expr.c"   /* one translation unit: avoids cross-TU struct type merging problems in CBMC */
struct EXPop_entry EXPop_table[OP_LAST];
Expression LITERAL_INFINITY, LITERAL_PI, LITERAL_E;
int indent2, curpos, exppp_linelength = 130; const int exppp_continuation_indent = 4;
void breakLongStr(const char *s) { (void)s; }
const char *real2exp(double r) { (void)r; return "0."; }
#define CAP 64
static char cap[2][CAP]; static int capn[2], run_no;
static void put(const char *s) { int i; for(i = 0; s[i]; i++) if(capn[run_no] + 1 < CAP) { cap[run_no][capn[run_no]++] = s[i]; cap[run_no][capn[run_no]] = 0; } }
/* the expression printer only uses the formats "%s", "%d", "%%%s" and literals without conversions */
static void emit(const char *fmt, va_list ap) {
    if(fmt[0] == '%' && fmt[1] == 's' && fmt[2] == 0) put(va_arg(ap, const char *));
    else if(fmt[0] == '%' && fmt[1] == 'd' && fmt[2] == 0) { (void)va_arg(ap, int); put("<int>"); }
    else put(fmt);
}
void wrap(const char *fmt, ...) { va_list ap; va_start(ap, fmt); emit(fmt, ap); va_end(ap); }
void raw(const char *fmt, ...) { va_list ap; va_start(ap, fmt); emit(fmt, ap); va_end(ap); }
struct ty { struct Scope_ t; struct TypeHead_ h; struct TypeBody_ b; };
static struct ty ty_op, ty_id;
static void mkty(struct ty *y, enum type_enum k) { y->t.u.type = &y->h; y->h.head = 0; y->h.body = &y->b; y->b.type = k; }
static struct Expression_ ea, eb, ec, n1, n2;
static void leaf(struct Expression_ *e, char *name) { e->type = &ty_id.t; e->symbol.name = name; }
static void node(struct Expression_ *e, int op, struct Expression_ *l, struct Expression_ *r) { e->type = &ty_op.t; e->e.op_code = op; e->e.op1 = l; e->e.op2 = r; e->e.op3 = &ec; /* never printed for binary operators; keeps the infeasible ternary case benign for symex */ }
static int binary(int op) { return op == OP_AND || op == OP_ANDOR || op == OP_OR || op == OP_CONCAT || op == OP_EQUAL || op == OP_PLUS || op == OP_TIMES || op == OP_XOR || op == OP_EXP
    || op == OP_GREATER_EQUAL || op == OP_GREATER_THAN || op == OP_IN || op == OP_INST_EQUAL || op == OP_INST_NOT_EQUAL || op == OP_LESS_EQUAL || op == OP_LESS_THAN || op == OP_LIKE
    || op == OP_MOD || op == OP_NOT_EQUAL || op == OP_REAL_DIV || op == OP_DIV || op == OP_MINUS; }
static int assoc(int op) { return op == OP_AND || op == OP_ANDOR || op == OP_OR || op == OP_XOR || op == OP_PLUS || op == OP_TIMES || op == OP_CONCAT; }
/* operator tokens: one distinct character per operator (the token table is data of expr.c, not of the printer;
 * distinct one-character stand-ins keep the printed texts comparable and the query small) */
static char toks[OP_LAST][2];
static void optable(void) { int i; for(i = 0; i < OP_LAST; i++) { toks[i][0] = (char)('A' + i); toks[i][1] = 0; EXPop_table[i].token = toks[i]; } }
void harness(void) {
    int i, same = 1;
    VERIF_BEGIN();
    ASSUME(binary(o1) && binary(o2));
#ifdef EXCLUDE_KF_C07_1
    ASSUME(!(o1 == OP_EQUAL && o2 == OP_EQUAL));
#endif
#ifdef FIX_O1
    o1 = FIX_O1;   /* forked per query */
#endif
    optable(); mkty(&ty_op, op_); mkty(&ty_id, identifier_);
    CHECK(TYPEis(&ty_op.t) == op_ && TYPEis(&ty_id.t) == identifier_, "harness self-check: hand-built types read back through TYPEis");
    leaf(&ea, "a"); leaf(&eb, "b"); leaf(&ec, "c");
#ifdef UNARY_O1
    /* unary variant: U = UNARY_O1 (OP_NEGATE / OP_NOT), o2 symbolic binary:  L = U ( a o2 b )   R = ( U a ) o2 b  must print differently */
    node(&n1, o2, &ea, &eb); node(&n2, UNARY_O1, &n1, 0);
    run_no = 0; EXPR__out(&n2, 0, OP_UNKNOWN);
    node(&n1, UNARY_O1, &ea, 0); node(&n2, o2, &n1, &eb);
    run_no = 1; EXPR__out(&n2, 0, OP_UNKNOWN);
    OBS("L=[%s] R=[%s]", cap[0], cap[1]);
    CHECK(capn[0] > 2 && capn[1] > 2, "something is printed");
    for(i = 0; i < CAP; i++) if(cap[0][i] != cap[1][i]) same = 0;
    CHECK(!same, "a unary operator applied to a binary expression and the binary expression of the unary operand print differently");
    { int par = 0; for(i = 0; i < CAP; i++) if(cap[0][i] == '(') par = 1;
      CHECK(par, "the binary operand of a unary operator is parenthesised (a unary operator binds tighter than every binary one)"); }
    VERIF_END();
    return;
#endif
    /* L = (a o1 b) o2 c */
    node(&n1, o1, &ea, &eb); node(&n2, o2, &n1, &ec);
    run_no = 0; EXPR__out(&n2, 0, OP_UNKNOWN);
    /* R = a o1 (b o2 c) */
    node(&n1, o2, &eb, &ec); node(&n2, o1, &ea, &n1);
    run_no = 1; EXPR__out(&n2, 0, OP_UNKNOWN);
    OBS("L=[%s] R=[%s]", cap[0], cap[1]);
    CHECK(capn[0] > 4 && capn[1] > 4, "something is printed");
    for(i = 0; i < CAP; i++) if(cap[0][i] != cap[1][i]) same = 0;
    CHECK(!same || (o1 == o2 && assoc(o1)), "differently grouped expressions print differently unless the operator is associative");
    VERIF_END();
}
