from vrun import H
LEVEL_TEXT = ('Bounded model checking (CBMC) of pretty-printer kernels of exppp (real pretty_expr.c / exppp.c compiled by goto-cc with the flags of the real build) with symbolic operators, '
  'labels and literal bytes; the printed text is compared with what must be re-readable as the same construct.')
OPS = ['OP_AND', 'OP_ANDOR', 'OP_OR', 'OP_CONCAT', 'OP_EQUAL', 'OP_PLUS', 'OP_TIMES', 'OP_XOR', 'OP_EXP', 'OP_GREATER_EQUAL', 'OP_GREATER_THAN', 'OP_IN', 'OP_INST_EQUAL', 'OP_INST_NOT_EQUAL',
       'OP_LESS_EQUAL', 'OP_LESS_THAN', 'OP_LIKE', 'OP_MOD', 'OP_NOT_EQUAL', 'OP_REAL_DIV', 'OP_DIV', 'OP_MINUS']
QUICK = {'OP_AND', 'OP_EQUAL', 'OP_PLUS', 'OP_MINUS', 'OP_LESS_THAN', 'OP_REAL_DIV'}
HARNESSES = [
  H('expr_grouping_%s' % op[3:].lower(), 'c', 'harness/C07/h_expr.c', tracked=['src/exppp/pretty_expr.c'], cflags=['-I/repo/src/exppp', '-I/repo/include/exppp', '-fno-builtin'], shadow_scope=True,
    defs={'FIX_O1': op}, unwind=70, object_bits=13, no_checks=True, tiers=('quick', 'thorough') if op in QUICK else ('thorough',),
    bounds='trees (a %s b) o2 c and a %s (b o2 c) over identifiers, o2 symbolic over all 22 binary operator codes (o1 forked per query)' % (op, op),
    stubs=['raw()/wrap(): harness capture of the formatted pieces (exppp.c line wrapping is not the subject here)', 'operator tokens: one distinct character per operator', 'shadow express headers (Scope_.u as struct)', 'built-in pointer checks off (functional property)'],
    out_of_claim='unary/ternary operators mixed in, literals, QUERY, aggregates, function calls, re-parsing by the real parser, line wrapping') for op in OPS
] + [
  H('expr_unary_%s' % u[3:].lower(), 'c', 'harness/C07/h_expr.c', tracked=['src/exppp/pretty_expr.c'], cflags=['-I/repo/src/exppp', '-I/repo/include/exppp', '-fno-builtin'], shadow_scope=True,
    defs={'UNARY_O1': u, 'FIX_O1': 'OP_PLUS'}, unwind=70, object_bits=13, no_checks=True,
    bounds='trees %s ( a o2 b ) and ( %s a ) o2 b over identifiers, o2 symbolic over all 22 binary operator codes' % (u, u),
    stubs=['raw()/wrap(): harness capture of the formatted pieces', 'operator tokens: one distinct character per binary operator', 'shadow express headers (Scope_.u as struct)', 'built-in pointer checks off (functional property)'],
    out_of_claim='ternary operators, literals, QUERY, aggregates, function calls, re-parsing by the real parser, line wrapping') for u in ('OP_NEGATE', 'OP_NOT')
] + [
  H('where_labels_n%d' % n, 'c', 'harness/C07/h_where.c', tracked=['src/exppp/pretty_where.c', 'src/exppp/pretty_expr.c'], cflags=['-I/repo/src/exppp', '-I/repo/include/exppp', '-fno-builtin'], shadow_scope=True,
    models=['lib/cmodels/sprintf_only.c'], defs={'NR': n}, unwind=100, object_bits=13, no_checks=True,
    bounds='WHERE clause of %d rule(s); per rule: real label or the parser sentinel "<unnamed>" (symbolic)' % n,
    stubs=['raw()/wrap(): harness capture through the printf content model', 'shadow express headers'],
    out_of_claim='long labels (> 10 characters), nested indentation levels, re-parsing by the real parser') for n in (1, 2)
]
JOBS = 6
MANIFEST = {
  'level_text': 'Bounded model checking of two pretty-printer kernels with the real pretty_expr.c / pretty_where.c: (1) for every pair of binary operators, the differently grouped trees (a o1 b) o2 c and a o1 (b o2 c) print differently unless o1 = o2 is associative, i.e. the printed expression denotes the tree it came from up to redundant parentheses, and the binary operand of a unary operator (-, NOT) is always parenthesised; (2) a WHERE clause of 1-2 rules prints a label prefix exactly for labelled rules, never the internal placeholder of unlabelled ones, and every rule once, terminated. Kernel level only.',
  'level_note': 'Trusted: CBMC, harness capture of raw()/wrap(), the shadow copies of include/express and include/exppp in which Scope_.u is a struct (CBMC simplifier bug workaround; native replay uses the real headers). Outside: line wrapping (wrap/breakLongStr in exppp.c, char[10000] buffers), declarations/scopes/alphabetisation, statements, aggregate initialisers with repetition, re-parsing by the real parser, idempotence of a second printing.',
  'technique': 'CBMC bounded model checking of goto-cc-compiled pretty_expr.c/pretty_where.c with symbolic operators and label states; native replay',
  'design_ref': 'DESIGN.md section 2, C07',
}
