/* C07-K3: WHERE_out of src/exppp/pretty_where.c on a list of NR rules whose label state is symbolic per rule:
 * a real label ("wr1"/"wr2") or the parser's sentinel for an unlabelled rule ("<unnamed>", see where_clause in expparse.y).
 * Assert: the printed clause contains "label: " exactly for the rules that have a real label and NEVER the sentinel text
 * (which the parser rejects), every rule's expression is printed once, in order, each terminated by ";".
 * raw()/wrap() are harness captures using the printf content model (the %*s / %-*s padding is part of the subject). */
#ifndef NR
#define NR 2
#endif
#define VERIF_INPUTS(S,A) A(unsigned char,labelled,2)
#include "verif.h"
#include <stdio.h>
#include <stdarg.h>
#include <string.h>
#include "express/expr.h"
#include "express/type.h"
#include "express/alg.h"
#include "express/linklist.h"
Expression LITERAL_INFINITY, LITERAL_PI, LITERAL_E; struct EXPop_entry EXPop_table[OP_LAST];
int indent2, curpos, exppp_linelength = 130; const int exppp_continuation_indent = 4, exppp_nesting_indent = 2;
void breakLongStr(const char *s) { (void)s; }
const char *real2exp(double r) { (void)r; return "0."; }
void prep_file(void) {} void finish_file(void) {} int prep_buffer(char *b, int l) { (void)b; (void)l; return 0; } int finish_buffer(void) { return 0; } int prep_string(void) { return 0; } char *finish_string(void) { return 0; }
#define CAP 96
static char cap[CAP]; static int capn;
static void emit(const char *fmt, va_list ap) { char tmp[CAP]; int i, n = vsnprintf(tmp, sizeof tmp, fmt, ap); for(i = 0; i < CAP; i++) if(i < n && capn + 1 < CAP) { cap[capn++] = tmp[i]; cap[capn] = 0; } }
void wrap(const char *fmt, ...) { va_list ap; va_start(ap, fmt); emit(fmt, ap); va_end(ap); }
void raw(const char *fmt, ...) { va_list ap; va_start(ap, fmt); emit(fmt, ap); va_end(ap); }
#include "src/exppp/pretty_expr.c"
#include "src/exppp/pretty_where.c"
struct ty { struct Scope_ t; struct TypeHead_ h; struct TypeBody_ b; };
static struct ty ty_id;
static int contains(const char *hay, const char *needle) { int i, j; for(i = 0; hay[i]; i++) { for(j = 0; needle[j] && hay[i + j] == needle[j]; j++) ; if(!needle[j]) return 1; } return 0; }
void harness(void) {
    static struct Expression_ ex[2]; static struct Where_ w[2]; static Symbol lab[2]; static struct Link_ mark, ln[2]; static struct Linked_List_ list;
    static char *names[2] = { "wr1", "wr2" }, *exprs[2] = { "xx", "yy" }; int i;
    VERIF_BEGIN();
    ty_id.t.u.type = &ty_id.h; ty_id.h.body = &ty_id.b; ty_id.b.type = identifier_;
    for(i = 0; i < NR; i++) { ex[i].type = &ty_id.t; ex[i].symbol.name = exprs[i]; lab[i].name = (labelled[i] & 1) ? names[i] : "<unnamed>"; w[i].label = &lab[i]; w[i].expr = &ex[i]; ln[i].data = &w[i]; }
    /* circular list with a mark node, as LISTcreate/LISTadd_last build it */
    list.mark = &mark; mark.next = &ln[0]; ln[0].prev = &mark;
    if(NR == 2) { ln[0].next = &ln[1]; ln[1].prev = &ln[0]; ln[1].next = &mark; mark.prev = &ln[1]; } else { ln[0].next = &mark; mark.prev = &ln[0]; }
    WHERE_out(&list, 0);
    OBS("out=[%s]", cap);
    CHECK(contains(cap, "WHERE\n"), "the clause keyword is printed");
    CHECK(!contains(cap, "<unnamed>"), "the parser's sentinel for an unlabelled rule is never printed");
    { int colons = 0, want = 0; for(i = 0; cap[i]; i++) if(cap[i] == ':') colons++; for(i = 0; i < NR; i++) want += labelled[i] & 1;
      CHECK(colons == want, "exactly one label prefix per labelled rule: no rule is printed under a label it does not have"); }
    for(i = 0; i < NR; i++) {
        char lb[8]; lb[0] = names[i][0]; lb[1] = names[i][1]; lb[2] = names[i][2]; lb[3] = ':'; lb[4] = ' '; lb[5] = 0;
        CHECK(contains(cap, lb) == (labelled[i] & 1), "a label prefix is printed exactly for labelled rules");
        { char ex3[6]; ex3[0] = exprs[i][0]; ex3[1] = exprs[i][1]; ex3[2] = ';'; ex3[3] = '\n'; ex3[4] = 0; CHECK(contains(cap, ex3), "every rule's expression is printed and terminated"); }
    }
    VERIF_END();
}
