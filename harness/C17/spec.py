import os, sys
sys.path.insert(0, os.path.dirname(os.path.abspath(__file__)))
import slice as c17slice
from vrun import H
LEVEL_TEXT = ('Bounded model checking (CBMC) of the per-type file decision of the configure-time scanner (sliced from the current schemaScanner.cc on every run) '
  'against the real per-type entry points of the C++ generator, for every shape of defined type within the stated bound.')
HARNESSES = [
  H('type_files_r%d' % r, 'c', 'harness/C17/h_typefiles.c', repo_srcs=['src/exp2cxx/classes_type.c', 'src/exp2cxx/classes_misc.c', 'src/exp2cxx/selects.c', 'src/exp2cxx/genCxxFilenames.c', 'src/express/type.c'],
    cflags=['-I/repo/src/exp2cxx', '-fno-builtin', '-include', '/verif/harness/C17/prelude_bufsiz.h'], shadow_scope=True, pregen=c17slice.pregen, models=['lib/cmodels/sprintf_only.c', 'lib/cmodels/printf_null.c'],
    defs={'RENAMED': r}, unwind=40, unwindset=['Type_Description:4', 'TypeBody_Description:4'], object_bits=11, no_checks=True, allow_undef=['ALLOC_destroy', 'ATTRprint_access_methods_get_head', 'ATTRprint_access_methods_put_head', 'ATTRsign_access_methods', 'DICTdo', 'ENTITYget_all_attributes', 'ENTITYget_named_attribute', 'EXPRto_string', 'HASHlistinit_by_type', 'LISTadd_first', 'LISTadd_last', 'LISTcreate', 'LISTfree', 'LISTget_first', 'VARget_simple_name', '__errno_location', 'attrIsObj', 'generate_attribute_func_name', 'generate_attribute_name', 'perror'], tracked=['cmake/schema_scanner/schemaScanner.cc'],
    bounds='one defined type, %s: underlying kind over the 14 kinds a TYPE declaration can have (7 simple, 5 aggregate, enumeration, select), base type kind of aggregates over the same 14 kinds' % ('not renamed', 'renaming another defined type', 'renaming a renamed type')[r],
    
    stubs=['scanner decision: source slice of schemaScanner.cc (notGenerated verbatim + the OBJ_TYPE case statements), regenerated per run', 'fopen: records the path, checks it and ends the path', 'stat/mkdir/fclose: succeed', 'WHEREprint (rules.c, text of WHERE rules): empty', 'BUFSIZ := 63 (prelude)', 'naming helpers of class_strings.c (TYPEget_ctype, ClassName, StrTo*): fixed text', 'functions only called behind the fopen() cut (file content printers: LIST*/DICTdo/ENTITY*/ATTR*/EXPRto_string) have no body', 'fprintf: empty; sprintf/snprintf: content model; strcat/strncat: no-op (descriptive text is not the subject)', 'shadow express headers (Scope_.u as a struct)', 'select item list empty; ancestors of a renamed type already processed'],
    out_of_claim='entities (one unconditional line on each side), the walk over the dictionary on both sides, multi-schema files and USE/REFERENCE, case-folding collisions of names, the unity/CMake text itself, schema directory and library names') for r in (0, 1, 2)
]
JOBS = 3
MANIFEST = {
  'level_text': 'Bounded model checking of the per-type file decision that the configure-time scanner and the C++ generator must share: for every shape of defined type within the bound (14 underlying kinds, plain / renamed once / renamed twice, any base kind, anonymous inner aggregates) the scanner lists a header/implementation pair exactly when the real per-type generator entry points (TYPEprint_descriptions, TYPEselect_print) open one, and the path opened is the one the shared helper getTypeFilenames computes. The scanner decision is sliced from the current schemaScanner.cc on every run.',
  'level_note': 'Trusted: CBMC, the source slicer (harness/C17/slice.py; an unrecognised shape of the scanner code is a machinery fault), shadow express headers, hand-built type objects. Outside: entities, the dictionary walks of both programs (SCOPEPrint dispatch, multpass ordering, USE/REFERENCE, multi-schema files), case-folding collisions of file names, the emitted CMake text, schema directory and library names.',
  'technique': 'CBMC bounded model checking of goto-cc-compiled classes_type.c/selects.c/classes_misc.c/genCxxFilenames.c against a per-run source slice of schemaScanner.cc, symbolic type shapes; native replay',
  'design_ref': 'DESIGN.md section 2, C17',
}
