/* C17-K1: per defined type, does the configure-time scanner list a pair of type files exactly when the C++ generator creates
 * one?  Scanner side: the decision sliced out of /repo's current cmake/schema_scanner/schemaScanner.cc on every run
 * (scanner_slice.h, see slice.py: notGenerated() verbatim + the statements of `case OBJ_TYPE:` in front of the file-name
 * computation).  Generator side: the REAL TYPEprint_descriptions() (classes_type.c) for every type and the REAL
 * TYPEselect_print() (selects.c) for selects -- the two per-type entry points SCOPEPrint dispatches to -- on a hand-built
 * defined type whose shape is symbolic: underlying kind (simple types, the five aggregate kinds, enumeration, select),
 * plain or renamed (TYPE b = a; one or two levels), and for aggregates the kind of the base type (an aggregate base may be anonymous).
 * Files are observed at fopen(): the harness fopen() records the path, checks it and ends the path there (what is written
 * into the file is not the subject).  Assert: a type file is created  <=>  the scanner lists the type; the created path is the
 * one getTypeFilenames() computes (the shared helper both programs use).
 * goto-cc uses the shadow express headers (Scope_.u as a struct), see DESIGN.md. */
#define VERIF_INPUTS(S,A) S(unsigned char,kind) S(unsigned char,renamed) S(unsigned char,basekind) S(unsigned char,anonbase)
#include "verif.h"
#include <stdio.h>
#include <string.h>
#include <stdlib.h>
#include <sys/stat.h>
#include "classes.h"
#include "classes_type.h"
#include "genCxxFilenames.h"
#include <stdbool.h>
#include "scanner_slice.h"
void TYPEselect_print( Type t, FILES * files, Schema schema );
void TYPEprint_descriptions( const Type type, FILES * files, Schema schema );
struct ty { struct Scope_ t; struct TypeHead_ h; struct TypeBody_ b; };
static struct ty T, A1, A2, BASE, BASE2;
static struct Scope_ sch; static struct Schema_ schbody;
static struct Linked_List_ items; static struct Link_ mark;
static struct SelectTag_ done_tag;
static int created, path_ok, expect_listed, in_generator;
static const enum type_enum kinds[] = { integer_, real_, string_, binary_, boolean_, number_, logical_, aggregate_, bag_, set_, list_, array_, enumeration_, select_ };
#define NKINDS 14
static void mk(struct ty *y, enum type_enum k, char *name) { y->t.u.type = &y->h; y->t.type = OBJ_TYPE; y->h.head = 0; y->h.body = &y->b; y->b.type = k; y->t.symbol.name = name; y->t.superscope = &sch; y->t.search_id = CANPROCESS; y->b.list = &items; }
/* naming helpers of class_strings.c: fixed text per type (names are not the subject: both programs call the same getTypeFilenames()) */
const char *TYPEget_ctype(const Type t) { return t == &T.t ? "SdaiTt" : (t == &A1.t ? "SdaiAa" : (t == &A2.t ? "SdaiBb" : "SdaiBase")); }
const char *ClassName(const char *n) { (void)n; return "SdaiCls"; }
const char *StrToLower(const char *w) { (void)w; return "lower"; }
const char *StrToUpper(const char *w) { (void)w; return "UPPER"; }
const char *FirstToUpper(const char *w) { (void)w; return "First"; }
const char *StrToConstant(const char *w) { (void)w; return "CONSTANT"; }
const char *TypeName(Type t) { (void)t; return "SdaiName"; }
char ToLower(char c) { return (c >= 'A' && c <= 'Z') ? (char)(c + 32) : c; }
char ToUpper(char c) { return (c >= 'a' && c <= 'z') ? (char)(c - 32) : c; }
void WHEREprint(const char *tename, Linked_List wheres, FILE *impl, Schema schema, bool needWR) { (void)tename; (void)wheres; (void)impl; (void)schema; (void)needWR; }   /* rules.c: prints WHERE rules of the type, text only */
int stat(const char *p, struct stat *s) { (void)p; s->st_mode = 0040000 /* S_IFDIR */; return 0; }
int mkdir(const char *p, unsigned int m) { (void)p; (void)m; return 0; }
int fclose(FILE *f) { (void)f; return 0; }
#ifndef NATIVE
/* the generator copies names with strncpy( buf, name, BUFSIZ ): the zero padding up to BUFSIZ (8192 iterations in CBMC's library
 * model) is not modelled -- the names here are a few bytes and nothing reads past their terminator */
/* descriptive text (Type_Description etc.) is built with strcat/strncat into scratch buffers and only printed: dropped */
char *strcat(char *d, const char *s) { (void)s; return d; }
char *strncat(char *d, const char *s, size_t n) { (void)s; (void)n; return d; }
char *strncpy(char *d, const char *s, size_t n) { size_t i; for(i = 0; i < n && s[i]; i++) d[i] = s[i]; if(i < n) d[i] = 0; return d; }
#endif
FILE *fopen(const char *path, const char *mode) {
    (void)mode;
    if(in_generator) {
        filenames_t fn = getTypeFilenames(&T.t);
        created++;
        path_ok = !strcmp(path, fn.header);
        OBS("fopen(%s) kind=%d renamed=%d listed=%d", path, (int)T.b.type, renamed, expect_listed);
        CHECK(expect_listed, "the generator creates a type file only for a type the scanner lists");
        CHECK(path_ok, "the first file created for the type is the header path getTypeFilenames() computes");
        /* end of this path: what goes into the file is not the subject */
#ifdef NATIVE
        VERIF_END(); exit(verif_failed ? 1 : 0);
#else
        __CPROVER_assume(0);
#endif
    }
#ifdef NATIVE
    { extern int open(const char *, int, ...); extern FILE *fdopen(int, const char *); int fd = open(path, 0 /* O_RDONLY */); return fd < 0 ? 0 : fdopen(fd, mode); }   /* the replay file itself */
#endif
    return 0;
}
void harness(void) {
    static FILES files;
    VERIF_BEGIN();
    ASSUME(kind < NKINDS); ASSUME(basekind < NKINDS);
    renamed = RENAMED;   /* forked per query: keeps the pointer structure of the hand-built types concrete for symex */
    sch.symbol.name = "sch"; sch.type = OBJ_SCHEMA; sch.u.schema = &schbody;
    items.mark = &mark; mark.next = &mark; mark.prev = &mark;       /* empty select item list */
    done_tag.started = 1; done_tag.complete = 1;
    mk(&T, kinds[kind], "tt"); mk(&A1, kinds[kind], "aa"); mk(&A2, kinds[kind], "bb"); mk(&BASE, kinds[basekind], "base"); mk(&BASE2, integer_, "leaf");
    /* TYPE tt = aa; (TYPE aa = bb;): a renamed type shares the body of its ancestor and points to it through head */
    if(renamed >= 1) { T.h.head = &A1.t; T.h.body = &A1.b; }
    if(renamed == 2) { A1.h.head = &A2.t; A1.h.body = &A2.b; T.h.body = &A2.b; }
    T.b.base = &BASE.t; A1.b.base = &BASE.t; A2.b.base = &BASE.t; BASE.b.base = &BASE2.t;   /* whichever body is in use: aggregate of BASE, BASE of a leaf */
    if((anonbase & 1) && TYPEinherits_from(&BASE.t, aggregate_)) BASE.t.symbol.name = 0;   /* LIST OF LIST OF x: the inner aggregate has no name */
    /* ancestors were processed before the renaming type (SCOPEPrint / multpass order) */
    A1.t.clientData = &done_tag; A2.t.clientData = &done_tag; A1.t.search_id = PROCESSED; A2.t.search_id = PROCESSED;
    CHECK(TYPEget_body(&T.t)->type == kinds[kind] && (TYPEget_head(&T.t) != 0) == (renamed != 0), "harness self-check: the hand-built type reads back through the TYPEget_* macros");
    { int n = 0; LISTdo(TYPEget_body(&T.t)->list, it, Type) (void)it; n++; LISTod
      CHECK(TYPEget_body(&T.t)->list == &items && n == 0, "harness self-check: the item list reads back empty"); }
#ifdef SELFCHECK_ONLY
    return;
#endif
    expect_listed = scanner_lists_type(&T.t);
    in_generator = 1;
    /* the dispatch of SCOPEPrint (classes_wrapper.cc): renamed enumerations go to TYPEprint_descriptions in the "redefs" pass,
     * every other type in the first pass; selects additionally go to TYPEselect_print */
    TYPEprint_descriptions(&T.t, &files, &sch);
    if(TYPEis_select(&T.t)) TYPEselect_print(&T.t, &files, &sch);
    in_generator = 0;
    OBS("kind=%d renamed=%d base=%d created=%d listed=%d", (int)kinds[kind], renamed, (int)kinds[basekind], created, expect_listed);
    CHECK(!expect_listed, "a type the scanner lists gets its files from the generator");
    VERIF_END();
}
