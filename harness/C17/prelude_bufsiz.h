/* parametric shrink (stated bound): the generator's scratch buffers are char[BUFSIZ+1]; the names in this harness are a few
 * bytes, so BUFSIZ = 63 keeps every copy inside its buffer and the array model small */
#ifndef _XOPEN_SOURCE
#define _XOPEN_SOURCE 500   /* as classes_type.c itself requests before its first include (S_IFDIR) */
#endif
#include <stdio.h>
#undef BUFSIZ
#define BUFSIZ 63
