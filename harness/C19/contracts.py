"""C19 -- contracts (PEP 316 docstrings) over the REAL stepcode Python runtime, decided by CrossHair (Z3).
Arguments are the symbolic bounds, flags, indices, values and short operation histories; the reference model is a plain
Python list / multiset / set that undergoes the same operations.  Each function returns the number of disagreements
between the runtime and the reference (post: 0).  `_kf_*` preconditions exclude recorded known findings."""
import os, sys
sys.path.insert(0, os.path.join(os.environ.get('VERIF_REPO', '/repo'), 'src', 'exp2python', 'python'))
from stepcode.AggregationDataTypes import ARRAY, LIST, BAG, SET
from stepcode.SimpleDataTypes import INTEGER, REAL
from typing import List, Tuple

POOL = (INTEGER(10), INTEGER(11), INTEGER(12))

def _try(f):
    try:
        f(); return None
    except Exception as e:          # noqa
        return type(e).__name__

def array_set_window(b1: int, b2: int, i: int) -> int:
    '''
    pre: -2 <= b1 <= b2 <= 3
    pre: -4 <= i <= 5
    post: __return__ == 0
    '''
    a = ARRAY(b1, b2, INTEGER)
    inwin = b1 <= i <= b2
    try:
        a[i] = POOL[0]
        ok = True
    except IndexError:
        ok = False
    if ok != inwin: return 1
    if inwin and a[i] != POOL[0]: return 1
    return 0

def array_read_unset(b1: int, b2: int, i: int, optional: bool) -> int:
    '''
    pre: -2 <= b1 <= b2 <= 3
    pre: -4 <= i <= 5
    post: __return__ == 0
    '''
    # reading an element that was never set: only an OPTIONAL array may hand out the indeterminate value
    a = ARRAY(b1, b2, INTEGER, OPTIONAL=optional)
    inwin = b1 <= i <= b2
    try:
        v = a[i]
        r = 'ok'
    except IndexError:
        r = 'index'
    except AssertionError:
        r = 'unset'
    if not inwin: return 0 if r == 'index' else 1
    if optional: return 0 if (r == 'ok' and v is None) else 1
    return 0 if r == 'unset' else 1

def array_sizes(b1: int, b2: int) -> int:
    '''
    pre: -3 <= b1 <= b2 <= 4
    post: __return__ == 0
    '''
    a = ARRAY(b1, b2, INTEGER)
    bad = 0
    if int(a.get_size()) != b2 - b1 + 1: bad += 1
    if int(a.get_loindex()) != b1 or int(a.get_hiindex()) != b2: bad += 1
    if int(a.get_lobound()) != b1 or int(a.get_hibound()) != b2: bad += 1
    return bad

def array_type_check(b1: int, b2: int, i: int, wrong: bool) -> int:
    '''
    pre: -1 <= b1 <= b2 <= 2
    pre: b1 <= i <= b2
    post: __return__ == 0
    '''
    a = ARRAY(b1, b2, INTEGER)
    v = REAL(1.5) if wrong else INTEGER(3)
    w = _try(lambda: a.__setitem__(i, v))
    if wrong: return 0 if w == 'TypeError' else 1
    return 0 if w is None else 1

def array_unique(b1: int, b2: int, i1: int, v1: int, i2: int, v2: int, kf_same_slot: bool) -> int:
    '''
    pre: 0 <= b1 <= b2 <= 2
    pre: b1 <= i1 <= b2 and b1 <= i2 <= b2
    pre: 0 <= v1 <= 2 and 0 <= v2 <= 2
    pre: kf_same_slot == False
    post: __return__ == 0
    '''
    a = ARRAY(b1, b2, INTEGER, UNIQUE=True)
    bad = 0
    a[i1] = POOL[v1]
    if (not kf_same_slot) and i2 == i1 and v2 == v1:
        return 0          # known finding KF-C19-2 excluded: re-assigning the value a slot already holds is rejected
    dup = (v2 == v1 and i2 != i1)
    try:
        a[i2] = POOL[v2]
        ok = True
    except AssertionError:
        ok = False
    if dup and ok: bad += 1
    if not dup and not ok: bad += 1
    n = 1 if i1 == i2 else (2 if ok else 1)
    if n == b2 - b1 + 1 and a.get_value_unique() is not True: bad += 1
    return bad

def bag_capacity(b1: int, b2: int, n: int) -> int:
    '''
    pre: 0 <= b1 <= b2 <= 4
    pre: 0 <= n <= 5
    post: __return__ == 0
    '''
    b = BAG(b1, b2, INTEGER)
    k = 0; bad = 0
    for j in range(n):
        w = _try(lambda: b.add(POOL[j % 3]))
        allowed = k < b2
        if allowed and w is not None: bad += 1
        if not allowed and w is None: bad += 1
        if w is None: k += 1
        if int(b.get_size()) != k: bad += 1
    if int(b.get_hibound()) != b2 or int(b.get_lobound()) != b1: bad += 1
    return bad

def bag_unbounded(b1: int, n: int, wrong_at: int) -> int:
    '''
    pre: 0 <= b1 <= 3
    pre: 0 <= n <= 4
    pre: -1 <= wrong_at <= 4
    post: __return__ == 0
    '''
    b = BAG(b1, None, INTEGER)
    k = 0; bad = 0
    for j in range(n):
        v = REAL(0.5) if j == wrong_at else POOL[j % 3]
        w = _try(lambda: b.add(v))
        if j == wrong_at:
            if w != 'TypeError': bad += 1
        else:
            if w is not None: bad += 1
            else: k += 1
        if int(b.get_size()) != k: bad += 1
    return bad

def set_ops(b1: int, b2: int, vals: List[int]) -> int:
    '''
    pre: 0 <= b1 <= b2 <= 3
    pre: len(vals) <= 4
    pre: all(0 <= v <= 2 for v in vals)
    post: __return__ == 0
    '''
    s = SET(b1, b2, INTEGER)
    ref = set(); bad = 0
    for v in vals:
        w = _try(lambda: s.add(POOL[v]))
        allowed = (v in ref) or (len(ref) < b2)
        if allowed and w is not None: bad += 1
        if not allowed and w is None: bad += 1
        if w is None: ref.add(v)
        if int(s.get_size()) != len(ref): bad += 1
    if s.get_value_unique() is not True: bad += 1
    return bad

def list_window(b1: int, b2: int, i: int) -> int:
    '''
    pre: 1 <= b1 <= b2 <= 3
    pre: -1 <= i <= 5
    post: __return__ == 0
    '''
    l = LIST(b1, b2, INTEGER)
    try:
        l[i] = POOL[0]
        ok = True
    except IndexError:
        ok = False
    return 0 if ok == (b1 <= i <= b2) else 1

def list_unique(b1: int, b2: int, i1: int, i2: int, same_value: bool) -> int:
    '''
    pre: 1 <= b1 <= b2 <= 3
    pre: b1 <= i1 <= b2 and b1 <= i2 <= b2 and i1 != i2
    post: __return__ == 0
    '''
    l = LIST(b1, b2, INTEGER, UNIQUE=True)
    l[i1] = POOL[0]
    try:
        l[i2] = POOL[0] if same_value else POOL[1]
        ok = True
    except AssertionError:
        ok = False
    return 0 if ok == (not same_value) else 1

def list_size(b1: int, b2: int, i1: int, i2: int) -> int:
    '''
    pre: 1 <= b1 <= b2 <= 3
    pre: b1 <= i1 <= b2 and b1 <= i2 <= b2
    post: __return__ == 0
    '''
    l = LIST(b1, b2, INTEGER)
    l[i1] = POOL[0]
    l[i2] = POOL[1]
    n = 1 if i1 == i2 else 2
    size = int(l.get_size())
    return 0 if (size == n and size <= b2 and int(l.get_hibound()) == b2 and int(l.get_lobound()) == b1) else 1

def list_zero_lower_capacity(b2: int, n: int, kf_zero_lower: bool) -> int:
    '''
    pre: 0 <= b2 <= 3
    pre: 0 <= n <= 5
    pre: kf_zero_lower == False
    post: __return__ == 0
    '''
    # never more elements than the upper bound, whatever indices are used
    l = LIST(0, b2, INTEGER)
    for j in range(n):
        _try(lambda: l.__setitem__(j, POOL[j % 3]))
    size = int(l.get_size())
    if kf_zero_lower:
        return 0 if size <= b2 else 1
    return 0 if size <= b2 + 1 else 1     # known finding KF-C19-1 excluded: LIST[0:b2] holds b2+1 elements

def list_unbounded(b1: int, idxs: List[int], wrong_at: int) -> int:
    '''
    pre: 0 <= b1 <= 2
    pre: len(idxs) <= 3
    pre: all(b1 <= i <= b1 + 3 for i in idxs)
    pre: -1 <= wrong_at <= 3
    post: __return__ == 0
    '''
    l = LIST(b1, None, INTEGER)
    ref = {}; bad = 0
    for n, i in enumerate(idxs):
        v = REAL(2.5) if n == wrong_at else POOL[n % 3]
        w = _try(lambda: l.__setitem__(i, v))
        if n == wrong_at:
            if w != 'TypeError': bad += 1
        else:
            if w is not None: bad += 1
            else: ref[i] = n % 3
        if int(l.get_size()) != len(ref): bad += 1
    for k in ref:
        if l[k] != POOL[ref[k]]: bad += 1
    return bad
