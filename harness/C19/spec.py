import os, sys, re, json, time, tempfile, shutil, hashlib
from concurrent.futures import ThreadPoolExecutor
import vrun, pysym
PROP = 'C19'
CONTRACTS = os.path.join(vrun.VERIF, 'harness', 'C19', 'contracts.py')
LEVEL_TEXT = ('Symbolic execution (CrossHair, Z3) of the real stepcode Python aggregates ARRAY/LIST/BAG/SET: bounds, flags, indices, values and operation '
              'histories of <= 3-5 operations are symbolic; a contract counts as held only when CrossHair reports "Confirmed over all paths".')
# tier -> per-condition timeout (s)
BUDGET = {'quick': 90, 'thorough': 600}
TRACKED = ['src/exp2python/python/stepcode/AggregationDataTypes.py', 'src/exp2python/python/stepcode/BaseType.py', 'src/exp2python/python/stepcode/TypeChecker.py', 'src/exp2python/python/stepcode/SimpleDataTypes.py']

def run(tier, only=None, keep=False):
    t0 = time.time()
    fns = [f for f in pysym.functions_of(CONTRACTS) if only is None or f[0] in only]
    wd = tempfile.mkdtemp(prefix='verif.C19.', dir='/var/tmp')
    res = {'samples': [], 'evaluations': 0, 'nontrivial': 0, 'violations': 0, 'faults': 0, 'inconclusive': 0, 'lines': [], 'solver_s': 0.0}
    known = vrun.load_known()
    def one(f):
        name, line, doc = f
        path = pysym.single_function_copy(CONTRACTS, name, wd)
        rc, out, secs = pysym.check(path, name, BUDGET[tier])
        return name, doc, path, rc, out, secs
    try:
        with ThreadPoolExecutor(8) as ex:
            results = list(ex.map(one, fns))
        for name, doc, path, rc, out, secs in results:
            res['evaluations'] += 1; res['solver_s'] += secs
            s = {'harness': name, 'engine': 'crosshair', 'contract': doc, 'sources_sha256_16': {t: vrun.sha256(vrun.rpath(t)) for t in TRACKED}, 'wall_s': round(secs, 2), 'output': out.strip()[-600:]}
            confirmed = re.search(r'info: Confirmed over all paths', out)
            err = re.search(r'error: (.*?) when calling (\w+\(.*?\))(?: \(which (?:returns|raises) .*\))?\s*$', out, flags=re.M)
            if confirmed and not err:
                s['status'] = 'held'; res['nontrivial'] += 1
                res['lines'].append('held property=%s harness=%s (CrossHair: confirmed over all paths, %.0fs)' % (PROP, name, secs))
            elif err:
                call = err.group(2)
                val, rout = pysym.replay_call(CONTRACTS, call)
                s['counterexample'] = call; s['replay_result'] = val
                if val is None or val.strip() == '0':
                    s['status'] = 'fault'; res['faults'] += 1
                    res['lines'].append('MACHINERY-FAULT property=%s harness=%s: counterexample %s does not reproduce on the real runtime (%s)' % (PROP, name, call, (val or rout[-300:])))
                else:
                    rdir = os.path.join(vrun.VERIF, 'replay', PROP); os.makedirs(rdir, exist_ok=True)
                    rfile = os.path.join(rdir, '%s-%s.py' % (name, hashlib.sha256(call.encode()).hexdigest()[:10]))
                    open(rfile, 'w').write('# property C19, contract %s violated by this call (returns %s disagreements with the reference model)\nimport os, sys\nsys.path.insert(0, %r)\nfrom contracts import *\nprint(%s)\n' % (name, val, os.path.dirname(CONTRACTS), call))
                    # the recorded known findings of this contract are excluded by precondition (kf_* argument False),
                    # so whatever CrossHair reports here is a different violation
                    s['status'] = 'violation'; res['violations'] += 1
                    res['lines'].append('VIOLATION property=%s replay=%s' % (PROP, rfile))
                    res['lines'].append('  contract=%s call=%s returned=%s' % (name, call, val))
            else:
                s['status'] = 'inconclusive'; res['inconclusive'] += 1
                res['lines'].append('INCONCLUSIVE property=%s harness=%s: CrossHair did not confirm within budget: %s' % (PROP, name, out.strip()[-200:]))
            res['samples'].append(s)
        # open known findings of this property are demonstrated concretely on every run (they are excluded from the contracts by precondition)
        for k in known:
            if k.get('property') == PROP and k.get('status') == 'open' and k.get('demo_call'):
                val, rout = pysym.replay_call(CONTRACTS, k['demo_call'])
                if val is not None and val.strip() != '0':
                    res['lines'].append('KNOWN-FINDING: property=%s %s [%s]' % (PROP, k['text'], k['id']))
                else:
                    res['lines'].append('note: known finding %s no longer reproduces (%s -> %s); consider marking it fixed' % (k['id'], k['demo_call'], val))
    finally:
        if not keep: shutil.rmtree(wd, ignore_errors=True)
    return vrun.finish(PROP, tier, int(os.environ.get('VERIF_SEED', '0') or 0), [], t0, LEVEL_TEXT, ['CrossHair/Z3 symbolic execution; "Confirmed over all paths" is the only accepted verdict'], py_results=res, partial=only is not None)

MANIFEST = {
  'level_text': 'CrossHair (Z3) symbolic execution of the real Python aggregate classes against list/multiset/set reference models: for all bounds in small windows, all flags, and all histories of <= 3-5 operations, an operation raises exactly when EXPRESS forbids it and size/bounds/indices/uniqueness agree with the reference. Held only on "Confirmed over all paths".',
  'level_note': 'Trusted: CrossHair 0.0.x/Z3, reference models in harness/C19/contracts.py. Bounds: b1,b2 in small windows, element pool of 3 INTEGERs + one wrong-typed value, histories <= 3-5 operations. Outside: nested aggregates, non-INTEGER base types, Builtin.py. Known findings (excluded by precondition, demonstrated concretely each run): see known_findings.json.',
  'technique': 'CrossHair/Z3 symbolic execution of the real stepcode Python runtime with symbolic bounds, flags and operation histories',
  'design_ref': 'DESIGN.md section 2, C19', 'engine': 'pysym',
}
