/* C12-K3: the algorithm printers of exppp (PROC_out / FUNC_out / RULE_out, src/exppp/pretty_proc.c / pretty_func.c / pretty_rule.c) with the tail
 * comment option on. Symbol.name (schema text) and Symbol.filename (the path the input was named by -- NOT schema text)
 * are independent symbolic strings; every string argument the printer hands to raw() or tail_comment() must be the
 * declaration's name, never the path: the printed text is then a function of the schema text only.
 * Callees that print the body (ALGargs_out, ALGscope_out, STMTlist_out, TYPE_head_out, exppp_ref_info) are empty stubs. */
#ifndef KIND
#define KIND 0   /* 0 PROCEDURE, 1 FUNCTION, 2 RULE (no FOR parameters) */
#endif
#define VERIF_INPUTS(S,A) A(char,nm,3) A(char,fn,3)
#include "verif.h"
#include <stdarg.h>
#include <string.h>
#include "express/alg.h"
#include "express/scope.h"
#include "express/linklist.h"
int indent2, curpos, exppp_linelength = 130; const int exppp_continuation_indent = 4, exppp_nesting_indent = 2; bool exppp_tail_comment = true;
char *placeholder = "";
void prep_file(void) {} void finish_file(void) {} int prep_buffer(char *b, int l) { (void)b; (void)l; return 0; } int finish_buffer(void) { return 0; } int prep_string(void) { return 0; } char *finish_string(void) { return placeholder; }
void first_newline(void) {} void exppp_ref_info(Symbol *s) { (void)s; }
void ALGargs_out(Linked_List l, int level) { (void)l; (void)level; } void ALGscope_out(Scope s, int level) { (void)s; (void)level; }
void WHERE_out(Linked_List l, int level) { (void)l; (void)level; } void wrap(const char *fmt, ...) { (void)fmt; }
void STMTlist_out(Linked_List l, int level) { (void)l; (void)level; } void TYPE_head_out(Type t, int level) { (void)t; (void)level; }
static const char *the_name, *the_file; static int name_seen, tails, foreign;
static void see(const char *s) { if(s == the_name) name_seen++; else if(s == the_file || (s[0] == the_file[0] && s[1] == the_file[1] && !(s[0] == the_name[0] && s[1] == the_name[1]))) foreign++; }
/* raw(): the %s arguments of the formats these two printers use ("%*sPROCEDURE %s(\n", "%*sFUNCTION %s", "%*s);\n", ...) */
void raw(const char *fmt, ...) { va_list ap; int i; va_start(ap, fmt);
    for(i = 0; i < 24 && fmt[i]; i++) if(fmt[i] == '%') { if(fmt[i + 1] == '*') { int w = va_arg(ap, int); (void)w; i++; } if(fmt[i + 1] == 's') { const char *s = va_arg(ap, const char *); if(s[0]) see(s); } }
    va_end(ap); }
void tail_comment(const char *name) { tails++; see(name); }
#if KIND == 0
#include "src/exppp/pretty_proc.c"
#elif KIND == 1
#include "src/exppp/pretty_func.c"
#else
#include "src/exppp/pretty_rule.c"
#endif
static int letter(char c) { return c == 'p' || c == 'q' || c == '/'; }
void harness(void) {
    static struct Scope_ sc; static struct Procedure_ pr; static struct Function_ fu; static struct Rule_ ru;
    VERIF_BEGIN();
    nm[2] = 0; fn[2] = 0;
    ASSUME(letter(nm[0]) && nm[0] != '/' && (nm[1] == 0 || letter(nm[1])) && nm[1] != '/');
    ASSUME(letter(fn[0]) && (fn[1] == 0 || letter(fn[1])));
    the_name = nm; the_file = fn;
    sc.symbol.name = nm; sc.symbol.filename = fn; sc.symbol.line = 3;
#if KIND == 0
    sc.u.proc = &pr; PROC_out(&sc, 0);
#elif KIND == 1
    sc.u.func = &fu; FUNC_out(&sc, 0);
#else
    sc.u.rule = &ru; RULE_out(&sc, 0);
#endif
    OBS("name=%s file=%s name_seen=%d tails=%d foreign=%d", nm, fn, name_seen, tails, foreign);
    CHECK(tails == 1, "exactly one tail comment closes the declaration");
    CHECK(name_seen == 2, "the declaration's name is printed in its head and in its tail comment");
    CHECK(foreign == 0, "no text that is not a function of the schema text (the input path) is printed");
    VERIF_END();
}
