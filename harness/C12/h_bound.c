/* C12-K1 (2-safety, self-composition): AGGRprint_bound of src/exp2cxx/classes_type.c is run twice on two bound expressions
 * that agree on everything the schema text determines (expression class, literal value, referenced attribute name) and
 * DIFFER IN ADDRESSES (the union payload of a non-literal is a pointer, arbitrary and different in the two runs).
 * Assert: the two emitted texts are byte-identical, i.e. no generated number or name depends on the address-space layout. */
#define VERIF_INPUTS(S,A) S(unsigned char,kind) S(int,lit) S(unsigned long,addr1) S(unsigned long,addr2) S(unsigned char,boundnr) S(unsigned char,rt)
#include "verif.h"
#include "verif_capture.h"
#include <stdio.h>
#include <string.h>
#include <stdlib.h>
#include "express/expr.h"
#include "express/type.h"
extern void AGGRprint_bound( FILE * header, FILE * impl, const char * var_name, const char * aggr_name, const char * cname, Expression bound, int boundNr );
/* deterministic rendering of an expression from its schema-level content (stub of the exppp string printer) */
char *EXPRto_string(Expression e) { char *s = malloc(8); (void)e; s[0] = 'm'; s[1] = 'a'; s[2] = 'x'; s[3] = 0; return s; }
const char *path2str(const char *p) { return p; }
static struct Scope_ ty_funcall, ty_integer, ty_ident;
struct Scope_ *Type_Funcall = &ty_funcall, *Type_Integer = &ty_integer, *Type_Identifier = &ty_ident;
static char out1[VERIF_OUT_CAP], out2[VERIF_OUT_CAP];
static void run(struct Expression_ *e, char *dst) {
    int i;
    verif_capture_begin();
    AGGRprint_bound(stdout, stderr, "t_0", "agg", "Cls", e, (boundnr & 1) + 1);
    verif_capture_end();
    for(i = 0; i < VERIF_OUT_CAP; i++) dst[i] = verif_out[i];
}
void harness(void) {
    struct Expression_ e1, e2, op2; int i, same = 1;
    VERIF_BEGIN();
    ASSUME(kind < 3);
    memset(&e1, 0, sizeof e1); memset(&e2, 0, sizeof e2); memset(&op2, 0, sizeof op2);
    op2.symbol.name = "n";
    e1.symbol.resolved = e2.symbol.resolved = 1;
    if(kind == 0) {          /* integer literal: same value in both runs */
        e1.type = e2.type = Type_Integer; e1.u.integer = e2.u.integer = lit;
        ASSUME(lit >= -999 && lit <= 99999);
    } else if(kind == 1) {   /* resolved reference to a constant / other non-literal: payload is an address */
        e1.type = e2.type = Type_Identifier; e1.u.entity = (void *)addr1; e2.u.entity = (void *)addr2;
    } else {                 /* function call bound */
        e1.type = e2.type = Type_Funcall; e1.u.entity = (void *)addr1; e2.u.entity = (void *)addr2;
    }
    /* static result type of a non-literal bound: unset, INTEGER (e.g. reference to an INTEGER constant) or something else */
    if(kind != 0) { struct Scope_ *r = (rt % 3 == 0) ? 0 : ((rt % 3 == 1) ? Type_Integer : Type_Identifier); e1.return_type = e2.return_type = r; }
    run(&e1, out1); run(&e2, out2);
    OBS("out1=[%s]", out1);
    for(i = 0; i < VERIF_OUT_CAP; i++) if(out1[i] != out2[i]) same = 0;
    CHECK(same, "generated bound initialiser is the same for equal schema content at different addresses");
    CHECK(out1[0] != 0, "something is emitted");
    VERIF_END();
}
