from vrun import H
LEVEL_TEXT = ('Determinism as a 2-safety property decided by CBMC self-composition: generator kernels are run twice on inputs that agree on everything the schema text determines and differ in '
  'addresses (arbitrary pointer payloads, arbitrary allocation addresses); the emitted text / iteration order must be identical.')
PM = 'lib/cmodels/printf_model.c'
HARNESSES = [
  H('aggr_bound', 'c', 'harness/C12/h_bound.c', repo_srcs=['src/exp2cxx/classes_type.c'], models=[PM], defs={'VERIF_OUT_CAP': 160}, unwind=170,
    cflags=['-I/repo/src/exp2cxx'],
    bounds='AGGRprint_bound: expression class in {integer literal, resolved non-literal reference, function call}, literal value in [-999, 99999], pointer payloads arbitrary 64-bit values differing between the runs, bound number symbolic',
    stubs=['fprintf: content model', 'EXPRto_string: deterministic text (schema-level rendering)', 'Type_* globals: harness objects'],
    out_of_claim='run-time (unresolved) bounds; whole output trees; ASLR experiments'),
] + [
  H('tail_name_%s' % nm, 'c', 'harness/C12/h_tailname.c', tracked=['src/exppp/pretty_%s.c' % nm], cflags=['-I/repo/src/exppp', '-I/repo/include/exppp', '-fno-builtin'], shadow_scope=True,
    defs={'KIND': k}, unwind=30, object_bits=10, no_checks=True,
    bounds='%s printer with tail comments on: declaration name (1..2 bytes over p q) and input path (1..2 bytes over p q /) independent symbolic strings' % nm.upper(),
    stubs=['raw(): records its %s arguments', 'tail_comment(): records its argument', 'ALGargs_out/ALGscope_out/STMTlist_out/TYPE_head_out/WHERE_out/wrap/exppp_ref_info: empty (bodies are printed elsewhere)', 'shadow express headers'],
    out_of_claim='the body printers, ENTITY/TYPE/RULE/SCHEMA tail comments, exp2cxx/exp2python output, the schema scanner') for k, nm in ((0, 'proc'), (1, 'func'), (2, 'rule'))
] + [
  H('aggr_bound_events%d' % nr, 'c', 'harness/C02/h_aggrinit.c', repo_srcs=['src/exp2cxx/classes_type.c'], defs={'BOUNDNR': nr}, unwind=60, object_bits=10, cflags=['-I/repo/src/exp2cxx', '-fno-builtin'],
    bounds='AGGRprint_bound (bound %d), statement-level capture: two runs with equal schema content and different pointer payloads emit the same statements with the same arguments' % nr,
    stubs=['fprintf: structured capture', 'EXPRto_string: fixed text'], out_of_claim='as above') for nr in (1, 2)
]
JOBS = 6
MANIFEST = {
  'level_text': 'CBMC self-composition (2-safety) over generator kernels: two runs on equal schema-level content at different addresses must emit identical text (aggregate bound initialisers) and iterate dictionaries/scopes in the same order. Kernel level only.',
  'level_note': 'Trusted: CBMC, printf content model, harness stubs for the expression printer. Outside: whole output trees, environment/locale/cwd dependence, the Python generator.',
  'technique': 'CBMC self-composition of real generator kernels with symbolic pointer payloads (2-safety)',
  'design_ref': 'DESIGN.md section 2, C12',
}
