from vrun import H
LEVEL_TEXT = ('Bounded model checking of the real Part 21 literal readers/writers (read_func.cc, Str.cc, sdaiString/Binary/Enum.cc) compiled from /repo through '
  'LLVM IR into C (ir2c) against the vstd model library, CBMC deciding every token string within the byte bound against reference scanners of ISO 10303-21.')
RT = ['lib/cmodels/cxx_rt.c']
NUM = dict(repo_srcs=['src/clstepcore/read_func.cc', 'src/clutils/Str.cc', 'src/clstepcore/sdai.cc', 'src/cldai/sdaiEnum.cc', 'src/cldai/sdaiString.cc'], irc_extra_cc=['harness/common/errordesc_stub.cc'],
           native_srcs=['src/clstepcore/read_func.cc', 'src/clutils/Str.cc', 'src/clutils/errordesc.cc', 'src/clstepcore/sdai.cc', 'src/cldai/sdaiString.cc', 'src/cldai/sdaiEnum.cc'],
           wrapper='harness/C09/wrap_num.cc', models=RT,
           stubs=['vstd istream/string model', 'ErrorDescriptor message mutators: empty bodies (severity logic real)', 'operator new = calloc, never fails'])
ENUMK = dict(wrapper='harness/C09/wrap_enum.cc', repo_srcs=['src/clutils/Str.cc', 'src/cldai/sdaiString.cc', 'src/clstepcore/sdai.cc', 'src/cldai/sdaiEnum.cc'],
    irc_extra_cc=['harness/common/errordesc_stub.cc'], models=RT + ['lib/cmodels/printf_null.c', 'lib/cmodels/sprintf_null.c'],
    native_srcs=['src/clutils/Str.cc', 'src/cldai/sdaiString.cc', 'src/clutils/errordesc.cc', 'src/clstepcore/sdai.cc', 'src/cldai/sdaiEnum.cc', 'src/clstepcore/read_func.cc'],
    stubs=['vstd istream/ostream/string model', 'ErrorDescriptor message mutators: empty bodies', 'sprintf into messageBuf (diagnostic text only): writes an empty string'])
HARNESSES = [
  H('int_tokens', 'irc', 'harness/C09/h_int.c', defs={'quick': {'NB': 5, 'VSTR_CAP': 10, 'VSTREAM_CAP': 8, 'VOSTREAM_CAP': 8}, 'thorough': {'NB': 7, 'VSTR_CAP': 12, 'VSTREAM_CAP': 10, 'VOSTREAM_CAP': 8}},
    unwind={'quick': 12, 'thorough': 14},
    bounds='every NUL-terminated token of <= 5 (7) bytes over {0-9 + - . E x blank , )}; with delimiter list ",)" and without (symbolic flag)',
    samples=[{'tok': '12,', 'usedelims': 1}, {'tok': ' -7 )', 'usedelims': 1}, {'tok': '1x,', 'usedelims': 1}, {'tok': '+', 'usedelims': 0}, {'tok': '99', 'usedelims': 0}, {'tok': ',', 'usedelims': 1}, {'tok': '1.5,', 'usedelims': 1}],
    out_of_claim='tokens longer than the bound; comments inside values', **NUM),
  H('int_boundary', 'irc', 'harness/C09/h_int.c', defs={'NB': 24, 'BOUNDARY': 1, 'DIGITS_ONLY': 1, 'VSTR_CAP': 10, 'VSTREAM_CAP': 26, 'VOSTREAM_CAP': 8}, unwind=28,
    bounds='tokens [-]92233720368547758dddd: the 17 leading digits of 2^63 followed by <= 4 symbolic bytes over {0-9 - ,}: every integer within 10^4 of +-2^63 and the 20/21-digit values beyond 64 bits',
    samples=[{'tail': '07,', 'usedelims': 1, 'minus': 0}, {'tail': '08,', 'usedelims': 1, 'minus': 0}, {'tail': '08', 'usedelims': 0, 'minus': 1}, {'tail': '09', 'usedelims': 0, 'minus': 1}, {'tail': '123', 'usedelims': 0, 'minus': 0}],
    out_of_claim='other long digit strings (thorough tier: int_overflow)', **NUM),
  H('int_overflow', 'irc', 'harness/C09/h_int.c', defs={'NB': 21, 'DIGITS_ONLY': 1, 'VSTR_CAP': 10, 'VSTREAM_CAP': 24, 'VOSTREAM_CAP': 8}, unwind=26, tiers=('thorough',),
    bounds='every token of <= 21 bytes over {0-9 - ,}: covers all integers around +-2^63 and beyond 64 bits',
    samples=[{'tok': '9223372036854775807,', 'usedelims': 1}, {'tok': '9223372036854775808,', 'usedelims': 1}, {'tok': '-9223372036854775808', 'usedelims': 0}, {'tok': '99999999999999999999,', 'usedelims': 1}],
    timeout={'thorough': 1800}, out_of_claim='longer digit strings', **NUM),
  H('real_tokens', 'irc', 'harness/C09/h_real.c', defs={'quick': {'NB': 6, 'VSTR_CAP': 10, 'VSTREAM_CAP': 9, 'VOSTREAM_CAP': 8, 'HARNESS_STRTOD': 1}, 'thorough': {'NB': 8, 'VSTR_CAP': 12, 'VSTREAM_CAP': 11, 'VOSTREAM_CAP': 8, 'HARNESS_STRTOD': 1}},
    unwind={'quick': 13, 'thorough': 15},
    bounds='every NUL-terminated token of <= 6 (8) bytes over {0-9 + - . E e x blank , )}; delimiter list symbolic; strtod uninterpreted (arbitrary value, arbitrary success flag)',
    samples=[{'tok': '1.5,', 'usedelims': 1}, {'tok': '-2.E3)', 'usedelims': 1}, {'tok': '1,', 'usedelims': 1}, {'tok': '.5', 'usedelims': 0}, {'tok': '1.e5', 'usedelims': 0}, {'tok': '+', 'usedelims': 0}, {'tok': '1.0E', 'usedelims': 0}, {'tok': ' 3. ,', 'usedelims': 1}],
    out_of_claim='numeric value of the conversion (IEEE), tokens longer than the bound', **NUM),
  H('string_tokens', 'irc', 'harness/C09/h_str.c', wrapper='harness/C09/wrap_str.cc',
    repo_srcs=['src/clutils/Str.cc', 'src/cldai/sdaiString.cc', 'src/clstepcore/sdai.cc', 'src/cldai/sdaiEnum.cc'], irc_extra_cc=['harness/common/errordesc_stub.cc'],
    native_srcs=['src/clutils/Str.cc', 'src/cldai/sdaiString.cc', 'src/clutils/errordesc.cc', 'src/clstepcore/sdai.cc', 'src/cldai/sdaiEnum.cc', 'src/clstepcore/read_func.cc'], models=RT,
    defs={'quick': {'NB': 7, 'VSTR_CAP': 12, 'VSTREAM_CAP': 10, 'VOSTREAM_CAP': 12}, 'thorough': {'NB': 9, 'VSTR_CAP': 14, 'VSTREAM_CAP': 12, 'VOSTREAM_CAP': 14}},
    unwind={'quick': 16, 'thorough': 18},
    bounds="every byte string of <= 7 (9) bytes over {' \\ S a , ) blank} then EOF",
    samples=[{'tok': "'a'"}, {'tok': "'a''a',"}, {'tok': "'\\S\\''"}, {'tok': "'a"}, {'tok': " ''"}, {'tok': "a'"}, {'tok': "''''"}, {'tok': "'a'a"}],
    stubs=['vstd istream/ostream/string model', 'ErrorDescriptor message mutators: empty bodies'],
    out_of_claim='strings longer than the bound; \\X\\ \\X2\\ \\X4\\ hex escapes (treated as ordinary bytes by the reader)'),
] + [
  H('enum_%s' % nm, 'irc', 'harness/C09/h_enum.c', defs={'quick': {'NB': 5, 'KIND': k, 'VSTR_CAP': 8, 'VSTREAM_CAP': 8, 'VOSTREAM_CAP': 8}, 'thorough': {'NB': 6, 'KIND': k, 'VSTR_CAP': 9, 'VSTREAM_CAP': 9, 'VOSTREAM_CAP': 9}},
    unwind={'quick': 12, 'thorough': 13},
    bounds='%s: every byte string of <= 5 (6) bytes over the kind alphabet (period, item letters in both cases, digit, x, blank, comma, parenthesis) then EOF; optional flag symbolic' % nm,
    samples=[{'tok': '.T.,', 'optional': 0}, {'tok': '.t.', 'optional': 0}, {'tok': 'T,', 'optional': 0}, {'tok': ',', 'optional': 1}, {'tok': '.x.', 'optional': 0}, {'tok': '.A.', 'optional': 0}, {'tok': '.BB.', 'optional': 0}, {'tok': '..', 'optional': 0}, {'tok': '.U.)', 'optional': 0}, {'tok': ' .F', 'optional': 0}],
    out_of_claim='item names longer than the bound', **ENUMK) for k, nm in ((0, 'logical'), (1, 'boolean'), (2, 'generic3'))
]
JOBS = 8
MANIFEST = {
  'level_text': 'Bounded model checking of the real literal readers and writers: every token string within the byte bound (all delimiter contexts) is compared with a reference scanner of the ISO 10303-21 grammar: conforming tokens are accepted with their exact value and no error, non-conforming or unrepresentable ones raise an error, the following delimiter is never consumed. Kernel level only (per literal kind); decimal<->double conversion is uninterpreted.',
  'level_note': 'Trusted: CBMC, the ir2c translator and the vstd stream/string model (validated per run by running generated C and a g++/libstdc++ build of the same functions on sample tokens, and by replaying every counterexample on the real build). Outside: numeric value of reals (IEEE conversion), tokens beyond the byte bound, STEPattribute dispatch.',
  'technique': 'clang LLVM IR of the real C++ kernels -> own IR-to-C translation -> CBMC (SAT) with symbolic token bytes vs. reference DFA; native replay',
  'design_ref': 'DESIGN.md section 3, C09',
}
