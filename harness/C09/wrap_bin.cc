// extern "C" entry point over SDAI_Binary::STEPread / STEPwrite (sdaiBinary.cc)
#include "clstepcore/sdai.h"
#include <sstream>
#include "../common/stdstreams.h"
extern "C" {
__attribute__((noinline)) int w_binary_rw(const char *s, char *val, char *out1, char *out2, int cap, long *pos) {
    std::istringstream in(s); ErrorDescriptor e; SDAI_Binary b;
    int sev = (int)b.STEPread(in, &e);
    *pos = verif_pos(in);
    int i; const char *c = b.c_str(); for(i = 0; c[i] && i < cap - 1; i++) val[i] = c[i]; val[i] = 0;
    std::ostringstream o; b.STEPwrite(o); std::string a = o.str(), t; b.STEPwrite(t);
    for(i = 0; i < (int)a.size() && i < cap - 1; i++) out1[i] = a[i]; out1[i] = 0;
    for(i = 0; i < (int)t.size() && i < cap - 1; i++) out2[i] = t[i]; out2[i] = 0;
    return sev;
}
}
