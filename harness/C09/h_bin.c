/* C09 BINARY: SDAI_Binary::STEPread -> ReadBinary, STEPwrite (both overloads) on every byte string of <= NB bytes over
 * { " 0 1 3 A F a x blank , ) } followed by EOF.
 * Reference (ISO 10303-21): BINARY = '"' ( "0" | "1" | "2" | "3" ) { HEX } '"'.  Reader leniencies accepted here: lower-case
 * hex letters, any hex digit in the first position (the bit-count digit is not interpreted by the library).
 *  (a) blanks + '"' hexdigits+ '"' => value = the digits, no error, stream right behind the closing quote, written back as
 *      '"' digits '"' by both writers (round trip);
 *  (b) digits without quotes, a missing closing quote, or a non-hex first character => reported (worse than a user message);
 *      an assigned value is always the hex digits that were read, never something else;
 *  (c) the delimiter "," / ")" is never consumed.                                                                         */
#ifndef NB
#define NB 6
#endif
#define VERIF_INPUTS(S,A) A(char,tok,NB+1)
#include "verif.h"
int w_binary_rw(const char *s, char *val, char *out1, char *out2, int cap, long *pos);
#define SEV_USERMSG 2
#define SEV_NULL 3
static int hex(char c) { return (c >= '0' && c <= '9') || (c >= 'a' && c <= 'f') || (c >= 'A' && c <= 'F'); }
static int alpha(char c) { return c == '"' || c == '0' || c == '1' || c == '3' || c == 'A' || c == 'F' || c == 'a' || c == 'x' || c == ' ' || c == ',' || c == ')'; }
void harness(void) {
    int i, len = 0, p, q, a, b, conforming = 0, sev; long pos; char val[NB + 2], o1[NB + 4], o2[NB + 4];
    VERIF_BEGIN();
    tok[NB] = 0;
    for(i = 0; i < NB; i++) { if(tok[i] == 0) break; ASSUME(alpha(tok[i])); len++; }
    for(i = 0; i < NB; i++) if(i > len) ASSUME(tok[i] == 0);
    p = 0; while(p < len && tok[p] == ' ') p++;
    q = p; a = b = p;
    if(q < len && tok[q] == '"') { q++; a = q; while(q < len && hex(tok[q])) q++; b = q; if(q < len && tok[q] == '"') { q++; conforming = b > a; } }
    sev = w_binary_rw(tok, val, o1, o2, NB + 4, &pos);
    OBS("tok=[%s] sev=%d val=[%s] o1=[%s] o2=[%s] pos=%ld", tok, sev, val, o1, o2, pos);
    if(conforming) {
        int ok = 1, k;
        CHECK(sev == SEV_NULL, "conforming BINARY raises no error");
        for(k = 0; k < NB; k++) if(k < b - a && val[k] != tok[a + k]) ok = 0;
        if(val[b - a] != 0) ok = 0;
        CHECK(ok, "conforming BINARY yields exactly its hex digits");
        CHECK(pos == q, "stream is left right behind the closing quote");
        ok = (o1[0] == '"');
        for(k = 0; k < NB; k++) if(k < b - a && (o1[1 + k] != tok[a + k] || o2[1 + k] != tok[a + k])) ok = 0;
        if(o1[1 + (b - a)] != '"' || o1[2 + (b - a)] != 0 || o2[0] != '"' || o2[1 + (b - a)] != '"' || o2[2 + (b - a)] != 0) ok = 0;
        CHECK(ok, "both writers render the value as a quoted token that reads back to the same value");
    } else {
        int empty = (p == len);
        int emptyquotes = (p + 1 < len && tok[p] == '"' && tok[p + 1] == '"');
        if(empty) CHECK(sev < SEV_NULL && val[0] == 0, "no value: incomplete, nothing assigned");
#ifndef EXCLUDE_KF_C09_BIN_EMPTY
        else CHECK(sev < SEV_USERMSG, "non-conforming BINARY text is reported");
#else
        else if(!emptyquotes) CHECK(sev < SEV_USERMSG, "non-conforming BINARY text is reported");
#endif
        (void)emptyquotes;
        if(val[0]) { int s0 = p, k, ok = 1; if(s0 < len && tok[s0] == '"') s0++; for(k = 0; k < NB && val[k]; k++) if(s0 + k >= len || val[k] != tok[s0 + k] || !hex(tok[s0 + k])) ok = 0; CHECK(ok, "an assigned value is the hex digits that were read, never something else"); }
    }
    { int k, sn = 0; for(k = 0; k < NB; k++) if(k < pos && k < len && (tok[k] == ',' || tok[k] == ')')) sn = 1; CHECK(!sn, "the delimiter that follows is never consumed"); }
    VERIF_END();
}
