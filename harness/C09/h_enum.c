/* C09 ENUMERATION / BOOLEAN / LOGICAL: SDAI_Enum::STEPread -> ReadEnum, STEPwrite, on every byte string of <= NB bytes.
 * Reference (ISO 10303-21): ENUMERATION = "." UPPER { UPPER | DIGIT } "." ; the item must be declared for the type.
 * Deliberate leniency of the reader: letter case (".t." reads as T).
 *  (a) blanks + "." item "." (any letter case, item declared) => that item, no error, stream right behind the closing ".",
 *      written back as "." ITEM "." in upper case;
 *  (b) any other non-empty text => a severity worse than a user message (WARNING/INCOMPLETE); a value may be assigned only
 *      if it is the declared item the letters spell (missing dots are reported, not silently accepted);
 *  (c) empty value (EOF, "," or ")" first) => INCOMPLETE, or no error when the attribute is optional; value stays unset;
 *  (d) the delimiter "," / ")" is never consumed.                                                                     */
#ifndef NB
#define NB 5
#endif
#ifndef KIND
#define KIND 0
#endif
#define VERIF_INPUTS(S,A) A(char,tok,NB+1) S(unsigned char,optional)
#include "verif.h"
int w_enum_rw(int kind, const char *s, int optional, int *val, int *isnull, char *out, int cap, long *pos);
#define SEV_WARNING 0
#define SEV_INCOMPLETE 1
#define SEV_USERMSG 2
#define SEV_NULL 3
static int up(int c) { return (c >= 'a' && c <= 'z') ? c - 32 : c; }
static int isal(int c) { c = up(c); return c >= 'A' && c <= 'Z'; }
static int alpha(char c) {
#if KIND == 2
    return c == '.' || c == 'A' || c == 'B' || c == 'b' || c == 'C' || c == '1' || c == '_' || c == ' ' || c == ',' || c == ')';
#elif defined(WITH_UNSET)
    return c == '.' || c == 'T' || c == 'U' || c == 'N' || c == 'S' || c == 'E' || c == ',';
#else
    return c == '.' || c == 'T' || c == 'F' || c == 'U' || c == 't' || c == 'x' || c == '1' || c == ' ' || c == ',' || c == ')';
#endif
}
/* declared items: index for the upper-cased item text tok[a..b), or -1 */
static int item_index(const char *t, int a, int b) {
    int n = b - a;
#if KIND == 2
    if(n == 1 && up(t[a]) == 'A') return 0;
    if(n == 2 && up(t[a]) == 'B' && up(t[a + 1]) == 'B') return 1;
    if(n == 2 && up(t[a]) == 'C' && t[a + 1] == '1') return 2;
    return -1;
#else
    if(n == 1 && up(t[a]) == 'F') return 0;
    if(n == 1 && up(t[a]) == 'T') return 1;
    if(n == 1 && up(t[a]) == 'U' && KIND == 0) return 3;   /* LUnknown */
    return -1;
#endif
}
void harness(void) {
    int i, len = 0, p, q, a, b, conforming = 0, idx = -1, sev, val, isnull; long pos; char out[NB + 6];
    VERIF_BEGIN();
    tok[NB] = 0; optional &= 1;
    for(i = 0; i < NB; i++) { if(tok[i] == 0) break; ASSUME(alpha(tok[i])); len++; }
    for(i = 0; i < NB; i++) if(i > len) ASSUME(tok[i] == 0);
    p = 0; while(p < len && tok[p] == ' ') p++;
    q = p; a = b = p;
    if(q < len && tok[q] == '.') {
        q++; a = q;
        if(q < len && (isal(tok[q]) || tok[q] == '_')) { q++; while(q < len && (isal(tok[q]) || tok[q] == '_' || (tok[q] >= '0' && tok[q] <= '9'))) q++; }
        b = q;
        if(b > a && q < len && tok[q] == '.') { q++; idx = item_index(tok, a, b); conforming = idx >= 0; }
    }
    sev = w_enum_rw(KIND, tok, optional, &val, &isnull, out, NB + 6, &pos);
    OBS("tok=[%s] opt=%d sev=%d val=%d null=%d out=[%s] pos=%ld", tok, optional, sev, val, isnull, out, pos);
    if(conforming) {
        int ok = 1, k;
        CHECK(sev == SEV_NULL, "conforming enumeration token raises no error");
        CHECK(!isnull && val == idx, "conforming enumeration token yields the item it names");
        CHECK(pos == q, "stream is left right behind the closing period");
        if(out[0] != '.') ok = 0;
        for(k = 0; k < NB; k++) if(k < b - a && out[1 + k] != up(tok[a + k])) ok = 0;
        if(out[1 + (b - a)] != '.' || out[2 + (b - a)] != 0) ok = 0;
        CHECK(ok, "written form is .ITEM. in upper case and reads back to the same item");
    } else {
        int empty = (p == len || tok[p] == ',' || tok[p] == ')');
        if(empty) {
            CHECK(sev == (optional ? SEV_NULL : SEV_INCOMPLETE), "empty value: incomplete unless optional");
            CHECK(isnull, "empty value leaves the attribute unset");
            CHECK(pos == p, "empty value consumes nothing but blanks");
            CHECK(out[0] == '$' && out[1] == 0, "unset enumeration is written as $");
        } else {
            CHECK(sev < SEV_USERMSG, "non-conforming enumeration text is reported (worse than a user message)");
            /* a value may only be assigned if the letters spell a declared item (dots missing/mismatched: reported above) */
            if(!isnull) {
                int s0 = p, e0; if(s0 < len && tok[s0] == '.') s0++;
                e0 = s0; while(e0 < len && (isal(tok[e0]) || tok[e0] == '_' || (e0 > s0 && tok[e0] >= '0' && tok[e0] <= '9'))) e0++;
                CHECK(item_index(tok, s0, e0) == val, "an assigned item is the declared item the text spells, never a different one");
            }
        }
    }
    { int k, sn = 0; for(k = 0; k < NB; k++) if(k < pos && k < len && (tok[k] == ',' || tok[k] == ')')) sn = 1; CHECK(!sn, "the delimiter that follows is never consumed"); }
    VERIF_END();
}
