/* C09/C01 STRING: SDAI_String::STEPread -> GetLiteralStr, STEPwrite(ostream&), STEPwrite(std::string&)
 * on every byte string of <= NB bytes over { ' \ S a , ) blank } followed by EOF.
 * Reference (ISO 10303-21): STRING = "'" { char-not-'-or-\ | "''" | "\\" | "\S\" char } "'".
 *  (a) input = blanks + conforming STRING + anything: the value is the token byte for byte (exchange form, quotes kept),
 *      no error, stream left right behind the closing quote, and writing it back reproduces the token (round trip);
 *  (b) an opening quote with no further quote at all => unterminated => error worse than a warning;
 *  (c) no opening quote => nothing is consumed but blanks, value empty, "incomplete".                                   */
#ifndef NB
#define NB 7
#endif
#define VERIF_INPUTS(S,A) A(char,tok,NB+1)
#include "verif.h"
int w_string_rw(const char *s, char *out1, char *out2, int cap, int *sev, int *errsev, long *pos, int *ovf);
#define SEV_INPUT_ERROR (-1)
#define SEV_INCOMPLETE 1
#define SEV_NULL 3
static int alpha(char c) { return c == '\'' || c == '\\' || c == 'S' || c == 'a' || c == ',' || c == ')' || c == ' '; }
void harness(void) {
    int i, len = 0, p, q, valid = 0, anyquote = 0, sev, errsev, ovf, n; long pos; char o1[NB + 4], o2[NB + 4];
    VERIF_BEGIN();
    tok[NB] = 0;
    for(i = 0; i < NB; i++) { if(tok[i] == 0) break; ASSUME(alpha(tok[i])); len++; }
    for(i = 0; i < NB; i++) if(i > len) ASSUME(tok[i] == 0);
    p = 0; while(p < len && tok[p] == ' ') p++;
    q = p;
    if(q < len && tok[q] == '\'') {
        int bad = 0; q++;
        for(i = 0; i < NB && q < len && !valid && !bad; i++) {
            if(tok[q] == '\'') { anyquote = 1; if(q + 1 < len && tok[q + 1] == '\'') q += 2; else { q++; valid = 1; } }
            else if(tok[q] == '\\') {
                if(q + 1 < len && tok[q + 1] == '\\') q += 2;
                else if(q + 3 < len && tok[q + 1] == 'S' && tok[q + 2] == '\\') { if(tok[q + 3] == '\'') anyquote = 1; q += 4; }
                else bad = 1;
            } else q++;
        }
        for(i = 0; i < NB; i++) if(i > p && i < len && tok[i] == '\'') anyquote = 1;
    }
    n = w_string_rw(tok, o1, o2, NB + 4, &sev, &errsev, &pos, &ovf);
    OBS("tok=[%s] n=%d o1=[%s] o2=[%s] sev=%d errsev=%d pos=%ld", tok, n, o1, o2, sev, errsev, pos);
    CHECK(!ovf, "model string capacity suffices");
    if(valid) {
        int same = (n == q - p);
        for(i = 0; i < NB; i++) if(i < q - p && (o1[i] != tok[p + i] || o2[i] != tok[p + i])) same = 0;
        if(same) { if(o1[q - p] != 0 || o2[q - p] != 0) same = 0; }
        CHECK(same, "conforming STRING is stored and written back byte for byte (round trip)");
        CHECK(sev == SEV_NULL && errsev == SEV_NULL, "conforming STRING raises no error");
        CHECK(pos == q, "stream is left right behind the closing quote");
    }
    if(p < len && tok[p] == '\'' && !anyquote) CHECK(sev == SEV_INPUT_ERROR && errsev <= SEV_INPUT_ERROR, "unterminated STRING is a non-recoverable error");
    if(p == len || tok[p] != '\'') { CHECK(n == 0 && sev == SEV_INCOMPLETE, "no string present: empty value, incomplete"); CHECK(pos == p, "nothing but blanks is consumed when no string is present"); }
    { int same = 1; for(i = 0; i < NB + 3; i++) { if(o1[i] != o2[i]) same = 0; if(!o1[i]) break; } CHECK(same, "both STEPwrite overloads agree"); }
    VERIF_END();
}
