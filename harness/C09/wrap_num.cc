// extern "C" entry points over the real number readers/writers of src/clstepcore/read_func.cc
#include "clstepcore/read_func.h"
#include "clutils/Str.h"
#include <sstream>
#include <string.h>
#include "../common/stdstreams.h"
extern "C" {
// which: 0 ReadInteger, 1 ReadReal, 2 ReadNumber.  delims==0 -> no delimiter list (StrToVal path)
__attribute__((noinline)) int w_read_num(int which, const char *s, int usedelims, long *ival, double *rval, int *sev, long *pos, int *eofbit) {
    std::istringstream in(s);
    ErrorDescriptor e;
    const char *d = usedelims ? ",)" : 0;
    int r;
    if(which == 0) { SDAI_Integer v = *ival; r = ReadInteger(v, in, &e, d); *ival = v; }
    else if(which == 1) { SDAI_Real v = *rval; r = ReadReal(v, in, &e, d); *rval = v; }
    else { SDAI_Real v = *rval; r = ReadNumber(v, in, &e, d); *rval = v; }
    *sev = (int)e.severity();
    *eofbit = in.eof() ? 1 : 0;
    *pos = verif_pos(in);
    return r;
}
__attribute__((noinline)) int w_int_valid_level(int which, const char *s, int optional, int usedelims) {
    ErrorDescriptor e;
    const char *d = usedelims ? ",)" : 0;
    if(which == 0) return (int)IntValidLevel(s, &e, 1, optional, d);
    if(which == 1) return (int)RealValidLevel(s, &e, 1, optional, d);
    return (int)NumberValidLevel(s, &e, 1, optional, d);
}
__attribute__((noinline)) int w_write_real(double v, char *out, int cap) {
    std::string s = WriteReal(v);
    int i = 0; for(; i < (int)s.size() && i < cap - 1; i++) out[i] = s[i]; out[i] = 0;
    return (int)s.size();
}
}
