// extern "C" entry points over SDAI_Enum / SDAI_LOGICAL / SDAI_BOOLEAN (sdaiEnum.cc)
#include "clstepcore/sdai.h"
#include "clutils/errordesc.h"
#include <sstream>
#include <string.h>
#include "../common/stdstreams.h"
// a three-item enumeration as the generator would emit it
class VColor : public SDAI_Enum {
  public:
    VColor() { set_null(); }
    virtual int no_elements() const { return 3; }
    virtual const char * Name() const { return "VColor"; }
    virtual const char * element_at( int n ) const { switch( n ) { case 0: return "A"; case 1: return "BB"; case 2: return "C1"; default: return "UNSET"; } }
};
extern "C" {
// kind: 0 LOGICAL, 1 BOOLEAN, 2 VColor.  Returns severity of STEPread; *val = integer value; writes STEPwrite output.
__attribute__((noinline)) int w_enum_rw(int kind, const char *s, int optional, int *val, int *isnull, char *out, int cap, long *pos) {
    std::istringstream in(s);
    ErrorDescriptor e;
    SDAI_LOGICAL l; SDAI_BOOLEAN b; VColor c;
    l.set_null(); b.set_null();
    SDAI_Enum *en = kind == 0 ? (SDAI_Enum *)&l : (kind == 1 ? (SDAI_Enum *)&b : (SDAI_Enum *)&c);
    int sev = (int)en->STEPread(in, &e, optional);
    *val = en->asInt(); *isnull = en->is_null() ? 1 : 0;
    *pos = verif_pos(in);
    std::ostringstream o; en->STEPwrite(o);
    std::string a = o.str(); int i;
    for(i = 0; i < (int)a.size() && i < cap - 1; i++) out[i] = a[i]; out[i] = 0;
    return sev;
}
}
