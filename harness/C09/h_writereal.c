/* C09 writer: WriteReal(double) (read_func.cc) formats with "%.15G" and then forces the decimal point Part 21 requires.
 * Decimal formatting is not modelled: sprintf is replaced by a harness stub that returns an ARBITRARY string of the
 * %.15G output grammar   -? d+ ( . d+ )? ( E [+-] d d+ )?    (symbolic bytes g[], constrained by that grammar), also "INF"/"NAN" excluded.
 * Assert: the result is a Part 21 REAL token   [sign] d+ "." d* [ "E" [sign] d+ ]   with exactly the digits sprintf produced:
 * a decimal point is present, the exponent letter is upper case, nothing else is changed. */
#ifndef NG
#define NG 8
#endif
#define VERIF_INPUTS(S,A) A(char,g,NG+1)
#include "verif.h"
int w_write_real(double v, char *out, int cap);
static int isdig(char c) { return c >= '0' && c <= '9'; }
#ifndef NATIVE
#include <stdarg.h>
int sprintf(char *buf, const char *fmt, ...) { int i; (void)fmt; for(i = 0; i <= NG; i++) buf[i] = g[i]; return 0; }
#else
#include <stdlib.h>
#endif
void harness(void) {
    int i, len = 0, p = 0, ok = 1, haspoint = 0, hasexp = 0, n; char out[NG + 6];
    VERIF_BEGIN();
    g[NG] = 0;
    for(i = 0; i < NG; i++) { if(g[i] == 0) break; len++; }
    for(i = 0; i < NG; i++) if(i > len) ASSUME(g[i] == 0);
    /* g must be in the %.15G grammar */
    if(p < len && g[p] == '-') p++;
    { int d0 = p; while(p < len && isdig(g[p])) p++; if(p == d0) ok = 0; }
    if(ok && p < len && g[p] == '.') { int f0; haspoint = 1; p++; f0 = p; while(p < len && isdig(g[p])) p++; if(p == f0) ok = 0; }
    if(ok && p < len && g[p] == 'E') { int d1; hasexp = 1; p++; if(p < len && (g[p] == '+' || g[p] == '-')) p++; else ok = 0; d1 = p; while(p < len && isdig(g[p])) p++; if(p - d1 < 2) ok = 0; }
    ASSUME(ok && p == len && len > 0);
#ifdef NATIVE
    n = w_write_real(strtod(g, 0), out, NG + 6);
#else
    { double v; n = w_write_real(v, out, NG + 6); }
#endif
    OBS("g=[%s] out=[%s]", g, out);
    /* result grammar */
    { int q = 0, r = 1, d0, pt = 0;
      if(out[q] == '-' || out[q] == '+') q++;
      d0 = q; while(isdig(out[q])) q++; if(q == d0) r = 0;
      if(out[q] == '.') { pt = 1; q++; while(isdig(out[q])) q++; }
      if(out[q] == 'E') { int d1; q++; if(out[q] == '+' || out[q] == '-') q++; d1 = q; while(isdig(out[q])) q++; if(q == d1) r = 0; }
      CHECK(r && out[q] == 0, "written REAL is a grammar-conforming token");
      CHECK(pt, "written REAL always has a decimal point"); }
#ifndef NATIVE
    /* digits unchanged: removing the inserted point from out gives g */
    { int a = 0, b = 0, same = 1; for(i = 0; i < NG + 5; i++) { if(out[a] == '.' && !haspoint) a++; if(out[a] != g[b]) same = 0; if(!out[a] || !g[b]) break; a++; b++; } CHECK(same, "only a decimal point is inserted, the digits and the exponent are what the formatter produced"); }
#endif
    (void)hasexp; (void)n;
    VERIF_END();
}
