/* C09 writer: WriteReal(double) (read_func.cc) formats with "%.15G" and then forces the decimal point Part 21 requires.
 * Decimal formatting is not modelled: sprintf is replaced by a harness stub that returns an ARBITRARY string of the
 * %.15G output grammar   -? d+ ( . d+ )? ( E [+-] d d+ )?    restricted to the canonical texts the real formatter prints (symbolic bytes g[]); "INF"/"NAN" excluded.
 * Assert: the result is a Part 21 REAL token   [sign] d+ "." d* [ "E" [sign] d+ ]   with exactly the digits sprintf produced:
 * a decimal point is present, the exponent letter is upper case, nothing else is changed. */
#ifndef NG
#define NG 8
#endif
#define VERIF_INPUTS(S,A) A(char,g,NG+1)
#include "verif.h"
int w_write_real(double v, char *out, int cap);
static int isdig(char c) { return c >= '0' && c <= '9'; }
#ifndef NATIVE
#include <stdarg.h>
int sprintf(char *buf, const char *fmt, ...) { int i; (void)fmt; for(i = 0; i <= NG; i++) buf[i] = g[i]; return 0; }
#else
#include <stdlib.h>
#endif
void harness(void) {
    int i, len = 0, p = 0, ok = 1, haspoint = 0, hasexp = 0, n; char out[NG + 6];
    VERIF_BEGIN();
    g[NG] = 0;
    for(i = 0; i < NG; i++) { if(g[i] == 0) break; len++; }
    for(i = 0; i < NG; i++) if(i > len) ASSUME(g[i] == 0);
    /* g must be in the %.15G grammar */
    if(p < len && g[p] == '-') p++;
    { int d0 = p; while(p < len && isdig(g[p])) p++; if(p == d0) ok = 0; }
    if(ok && p < len && g[p] == '.') { int f0; haspoint = 1; p++; f0 = p; while(p < len && isdig(g[p])) p++; if(p == f0) ok = 0; }
    if(ok && p < len && g[p] == 'E') { int d1; hasexp = 1; p++; if(p < len && (g[p] == '+' || g[p] == '-')) p++; else ok = 0; d1 = p; while(p < len && isdig(g[p])) p++; if(p - d1 < 2) ok = 0; }
    ASSUME(ok && p == len && len > 0);
    /* canonical %.15G texts only (what the real formatter can print), so that every counterexample replays on the real sprintf:
     * no superfluous leading or trailing zeros; with an exponent the integer part is one non-zero digit and the exponent has 2-3 digits
     * in the range where %G switches to scientific notation (>= +15, <= -05); without one the value is 0 or >= 0.0001 */
    { int a = g[0] == '-' ? 1 : 0, ip = a, fz = 0, e0 = 0, k, canon = 1; long ev = 0;
      while(ip < len && isdig(g[ip])) ip++;                       /* ip: end of the integer part */
      if(ip - a > 1 && g[a] == '0') canon = 0;
      if(haspoint) { int fe = ip + 1; while(fe < len && isdig(g[fe])) fe++; if(g[fe - 1] == '0') canon = 0; for(k = ip + 1; k < fe && g[k] == '0'; k++) fz++; if(ip - a == 1 && g[a] == '0' && !hasexp && fz > 3) canon = 0; }
      if(hasexp) { if(ip - a != 1 || g[a] == '0') canon = 0; for(k = 0; k < len; k++) if(g[k] == 'E') e0 = k; { int nd = len - (e0 + 2); if(nd > 3 || (nd == 3 && g[e0 + 2] == '0')) canon = 0; for(k = e0 + 2; k < len; k++) ev = ev * 10 + (g[k] - '0'); }
                   if(ev > 308) canon = 0; if(g[e0 + 1] == '+' && ev < 15) canon = 0; if(g[e0 + 1] == '-' && ev < 5) canon = 0; }
      ASSUME(canon); }
#ifdef NATIVE
    n = w_write_real(strtod(g, 0), out, NG + 6);
#else
    { double v; n = w_write_real(v, out, NG + 6); }
#endif
    OBS("g=[%s] out=[%s]", g, out);
    /* result grammar */
    { int q = 0, r = 1, d0, pt = 0;
      if(out[q] == '-' || out[q] == '+') q++;
      d0 = q; while(isdig(out[q])) q++; if(q == d0) r = 0;
      if(out[q] == '.') { pt = 1; q++; while(isdig(out[q])) q++; }
      if(out[q] == 'E') { int d1; q++; if(out[q] == '+' || out[q] == '-') q++; d1 = q; while(isdig(out[q])) q++; if(q == d1) r = 0; }
      CHECK(r && out[q] == 0, "written REAL is a grammar-conforming token");
      CHECK(pt, "written REAL always has a decimal point"); }
    /* digits unchanged: removing the inserted point from out gives the formatter's text (CBMC: the stub's g; native replay: what the real
     * sprintf("%.15G") prints for the replayed value) */
    { const char *ft = g; int fp = haspoint; int a = 0, b = 0, same = 1;
#ifdef NATIVE
      static char ref[64]; int k; snprintf(ref, sizeof ref, "%.15G", strtod(g, 0)); ft = ref; fp = 0; for(k = 0; ref[k]; k++) if(ref[k] == '.') fp = 1;
#endif
      for(i = 0; i < NG + 5; i++) { if(out[a] == '.' && !fp) a++; if(out[a] != ft[b]) same = 0; if(!out[a] || !ft[b]) break; a++; b++; }
      CHECK(same, "only a decimal point is inserted, the digits and the exponent are what the formatter produced"); }
    (void)hasexp; (void)n;
    VERIF_END();
}
