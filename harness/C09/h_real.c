/* C09 REAL: ReadReal (+CheckRemainingInput) on every token string of <= NB bytes over { digits + - . E e x blank , ) }.
 * Reference (ISO 10303-21): REAL = [sign] digit {digit} "." {digit} [ "E" [sign] digit {digit} ].
 * Decimal->double conversion is uninterpreted: the harness supplies __verif_strtod, records the characters it is handed
 * and returns an arbitrary double V with an arbitrary success flag.
 *  (a) conforming token + blanks + delimiter/EOF => exactly the token's characters are converted, value = V, no error;
 *      if the conversion reports failure (out of double range) => error
 *  (b) non-conforming text => error (the reader's leniencies -- missing digit/point, lower-case e -- are WARNINGs, i.e. errors)
 *  (d) the delimiter that follows is never consumed                                                                      */
#ifndef NB
#define NB 6
#endif
#define VERIF_INPUTS(S,A) A(char,tok,NB+1) S(unsigned char,usedelims) S(double,V) S(unsigned char,convok)
#include "verif.h"
int w_read_num(int which, const char *s, int usedelims, long *ival, double *rval, int *sev, long *pos, int *eofbit);
#define SEV_NULL 3
static int isdig(char c) { return c >= '0' && c <= '9'; }
static int alpha(char c) { return isdig(c) || c == '+' || c == '-' || c == '.' || c == 'E' || c == 'e' || c == 'x' || c == ' ' || c == ',' || c == ')'; }
static char seen[NB + 2]; static int seen_n = -1;
#ifndef NATIVE
double __verif_strtod(const char *s, int n, int *ok) { int i; seen_n = n; for(i = 0; i < NB + 1; i++) if(i < n) seen[i] = s[i]; *ok = convok & 1; return V; }
#endif
void harness(void) {
    int i, len = 0, p, q, e, sev, eofbit, r, ok; long pos, idummy = 0; double val = 4242.0;
    VERIF_BEGIN();
    tok[NB] = 0; usedelims &= 1;
    ASSUME(V == V);   /* not NaN */
    for(i = 0; i < NB; i++) { if(tok[i] == 0) break; ASSUME(alpha(tok[i])); len++; }
    for(i = 0; i < NB; i++) if(i > len) ASSUME(tok[i] == 0);
    p = 0; while(p < len && tok[p] == ' ') p++;
    q = p; ok = 1;
#ifdef NUMBER
    /* NUMBER: an INTEGER or REAL token; the reader (istream >> double) is deliberately lenient: the point, leading or
       trailing digits and the case of the exponent letter are optional:  [sign] ( d+ [ "." d* ] | "." d+ ) [ (E|e) [sign] d+ ] */
    if(q < len && (tok[q] == '+' || tok[q] == '-')) q++;
    { int d0 = q, nd = 0; while(q < len && isdig(tok[q])) q++; nd = q - d0;
      if(q < len && tok[q] == '.') { int f0; q++; f0 = q; while(q < len && isdig(tok[q])) q++; nd += q - f0; }
      if(nd == 0) ok = 0; }
    if(ok && q < len && (tok[q] == 'E' || tok[q] == 'e')) { int s2 = q + 1, d1; if(s2 < len && (tok[s2] == '+' || tok[s2] == '-')) s2++; d1 = s2; while(s2 < len && isdig(tok[s2])) s2++; if(s2 == d1) ok = 0; else q = s2; }
#else
    if(q < len && (tok[q] == '+' || tok[q] == '-')) q++;
    { int d0 = q; while(q < len && isdig(tok[q])) q++; if(q == d0) ok = 0; }
    if(ok && q < len && tok[q] == '.') q++; else ok = 0;
    if(ok) { while(q < len && isdig(tok[q])) q++;
             if(q < len && tok[q] == 'E') { int s2 = q + 1, d1; if(s2 < len && (tok[s2] == '+' || tok[s2] == '-')) s2++; d1 = s2; while(s2 < len && isdig(tok[s2])) s2++; if(s2 == d1) ok = 0; else q = s2; } }
#endif
    e = q; while(e < len && tok[e] == ' ') e++;
    { int ingrammar = ok && (e == len || (usedelims && (tok[e] == ',' || tok[e] == ')')));
      /* when does the (uninterpreted) conversion report "out of range"?  Tie the flag to the one case where the real libc
         certainly does -- non-zero mantissa and a positive exponent >= 400 -- so that counterexamples replay on the real build */
      int k, mant_nz = 0, seenE = 0, eneg = 0, expval = 0, certain;
      for(k = 0; k < NB; k++) if(k >= p && k < q) { if(tok[k] == 'E' || tok[k] == 'e') seenE = 1; else if(!seenE && tok[k] >= '1' && tok[k] <= '9') mant_nz = 1; else if(seenE && tok[k] == '-') eneg = 1; else if(seenE && isdig(tok[k]) && expval < 100000) expval = expval * 10 + (tok[k] - '0'); }
      certain = mant_nz && seenE && !eneg && expval >= 400;
      if(ingrammar) ASSUME(((convok & 1) == 0) == (certain != 0));
      int onlyblanks = (p == len || (usedelims && (tok[p] == ',' || tok[p] == ')')));
#ifdef NUMBER
      r = w_read_num(2, tok, usedelims, &idummy, &val, &sev, &pos, &eofbit);
#else
      r = w_read_num(1, tok, usedelims, &idummy, &val, &sev, &pos, &eofbit);
#endif
      OBS("tok=[%s] d=%d r=%d sev=%d pos=%ld eof=%d val=%.17g", tok, usedelims, r, sev, pos, eofbit, r ? val : 0.0);
      if(ingrammar) {
#ifndef NATIVE
          int same = (seen_n == q - p); for(i = 0; i < NB; i++) if(i < q - p && seen[i] != tok[p + i]) same = 0;
          CHECK(same, "exactly the characters of the conforming REAL token are converted");
          if(convok & 1) { CHECK(r == 1 && val == V, "conforming REAL is assigned the converted value"); CHECK(sev == SEV_NULL, "conforming REAL raises no error"); }
          else CHECK(sev < SEV_NULL, "REAL outside the double range raises an error (never silently unset)");
#else
          if(certain) CHECK(sev < SEV_NULL, "REAL outside the double range raises an error (never silently unset)");
          else CHECK(r == 1 && sev == SEV_NULL, "conforming REAL is accepted without error");
#endif
          CHECK(pos == e, "stream is left at the delimiter / end of input after a conforming REAL");
      } else if(!onlyblanks) {
          CHECK(sev < SEV_NULL, "non-conforming REAL text raises an error");
      } else {
          CHECK(r == 0, "empty value assigns nothing");
      }
#ifndef NATIVE
      if(r == 1 && (convok & 1)) CHECK(val == V && seen_n > 0, "an assigned value is the conversion of the characters read, never something else");
#endif
      if(usedelims) { int k, sn = 0; for(k = 0; k < NB; k++) if(k < pos && k < len && (tok[k] == ',' || tok[k] == ')')) sn = 1; CHECK(!sn, "the delimiter that follows is never consumed"); }
    }
    VERIF_END();
}
