// extern "C" entry points over GetLiteralStr (Str.cc) and SDAI_String (sdaiString.cc)
#include "clstepcore/sdai.h"
#include "clutils/Str.h"
#include "clutils/errordesc.h"
#include <sstream>
#include <string.h>
#include "../common/stdstreams.h"
extern "C" {
// reads a string literal with SDAI_String::STEPread, writes it back with both STEPwrite overloads
__attribute__((noinline)) int w_string_rw(const char *s, char *out1, char *out2, int cap, int *sev, int *errsev, long *pos, int *ovf) {
    std::istringstream in(s);
    ErrorDescriptor e;
    SDAI_String str;
    *sev = (int)str.STEPread(in, &e);
    *errsev = (int)e.severity();
    *pos = verif_pos(in);
    std::ostringstream o; str.STEPwrite(o);
    std::string a = o.str(); std::string b; str.STEPwrite(b);
    int i;
    for(i = 0; i < (int)a.size() && i < cap - 1; i++) out1[i] = a[i]; out1[i] = 0;
    for(i = 0; i < (int)b.size() && i < cap - 1; i++) out2[i] = b[i]; out2[i] = 0;
#ifdef VSTD
    *ovf = a.ovf || b.ovf;
#else
    *ovf = 0;
#endif
    return (int)a.size();
}
}
