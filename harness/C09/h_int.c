/* C09 INTEGER: ReadInteger (+CheckRemainingInput) on every token string of <= NB bytes over the alphabet
 * { digits + - . E x blank , ) } followed by NUL (EOF), with and without a delimiter list.
 * Reference: ISO 10303-21 INTEGER = [sign] digit {digit}.
 *  (a) token in grammar, then blanks, then delimiter/EOF  => assigned, value exact (64-bit reference), severity NULL
 *  (b) token not in grammar => severity worse than NULL, or (no value and nothing consumed past a delimiter)
 *  (c) value beyond 64 bits => error, never silently unset
 *  (d) with a delimiter list, the stream is left AT the delimiter (never past it)                                  */
#ifndef NB
#define NB 5
#endif
#ifdef BOUNDARY
/* tokens around +-2^63: optional '-', the 17 leading digits of 2^63, then <= 4 symbolic bytes */
#define VERIF_INPUTS(S,A) A(char,tail,5) S(unsigned char,usedelims) S(unsigned char,minus)
#else
#define VERIF_INPUTS(S,A) A(char,tok,NB+1) S(unsigned char,usedelims)
#endif
#include "verif.h"
int w_read_num(int which, const char *s, int usedelims, long *ival, double *rval, int *sev, long *pos, int *eofbit);
#define SEV_WARNING 0
#define SEV_NULL 3
static int isdig(char c) { return c >= '0' && c <= '9'; }
static int alpha(char c) {
#ifdef DIGITS_ONLY
    return isdig(c) || c == ',' || c == '-';
#else
    return isdig(c) || c == '+' || c == '-' || c == '.' || c == 'E' || c == 'x' || c == ' ' || c == ',' || c == ')';
#endif
}
void harness(void) {
    int i, len = 0, p, q, ndig = 0, neg = 0, ovf = 0, ingrammar, sev, eofbit, r; long pos, val = 4242, ref = 0; double dummy = 0;
    unsigned long acc = 0;
    VERIF_BEGIN();
#ifdef BOUNDARY
    static char tok[NB + 1]; { const char *pre = "92233720368547758"; int k = 0, j; if(minus & 1) tok[k++] = '-'; for(j = 0; pre[j]; j++) tok[k++] = pre[j]; tail[4] = 0; for(j = 0; j < 5; j++) tok[k++] = tail[j]; }
#endif
    tok[NB] = 0; usedelims &= 1;
    for(i = 0; i < NB; i++) { if(tok[i] == 0) break; ASSUME(alpha(tok[i])); len++; }
    for(i = 0; i < NB; i++) if(i > len) ASSUME(tok[i] == 0);
    /* reference scan: blanks, [sign], digits, blanks, then delimiter or EOF */
    p = 0; while(p < len && tok[p] == ' ') p++;
    q = p; if(q < len && (tok[q] == '+' || tok[q] == '-')) { neg = tok[q] == '-'; q++; }
    while(q < len && isdig(tok[q])) {
        unsigned long d = (unsigned long)(tok[q] - '0'); unsigned long lq = 922337203685477580UL, lr = neg ? 8 : 7;   /* (2^63 or 2^63-1) div/mod 10 */
        if(ovf || acc > lq || (acc == lq && d > lr)) ovf = 1; else acc = (acc << 3) + (acc << 1) + d;
        ndig++; q++;
    }
    { int e = q; while(e < len && tok[e] == ' ') e++;
      ingrammar = ndig > 0 && (e == len || (usedelims && (tok[e] == ',' || tok[e] == ')')));
      ref = neg ? (long)(0UL - acc) : (long)acc;
      r = w_read_num(0, tok, usedelims, &val, &dummy, &sev, &pos, &eofbit);
      OBS("tok=[%s] d=%d r=%d val=%ld sev=%d pos=%ld eof=%d", tok, usedelims, r, val, sev, pos, eofbit);
      if(ingrammar && !ovf) {
          CHECK(r == 1 && val == ref, "conforming INTEGER token is assigned its exact value");
          CHECK(sev == SEV_NULL, "conforming INTEGER token raises no error");
          CHECK(pos == e, "stream is left at the delimiter / end of input after a conforming INTEGER");
      }
#ifndef EXCLUDE_KF_C09_INTOVF
      if(ingrammar && ovf) CHECK(sev < SEV_NULL, "INTEGER beyond 64 bits raises an error (never silently unset)");
#endif
      if(!(ingrammar)) {
          /* not an INTEGER followed by a delimiter: error, unless nothing but blanks precede the delimiter/EOF (empty value: caller's business) */
          int onlyblanks = (ndig == 0 && q == p && (p == len || (usedelims && (tok[p] == ',' || tok[p] == ')'))));
          if(!onlyblanks) CHECK(sev < SEV_NULL || (r == 1 && val == ref && ndig > 0 && !usedelims && 0), "non-conforming INTEGER text raises an error");
          if(onlyblanks) CHECK(r == 0 && val == 4242, "empty value leaves the target untouched");
      }
      if(r == 1 && !ovf) CHECK(ndig > 0 && val == ref, "an assigned value is the value the leading digits spell, never a different one");
      if(usedelims) { int k, seen = 0; for(k = 0; k < NB; k++) if(k < pos && k < len && (tok[k] == ',' || tok[k] == ')')) seen = 1; CHECK(!seen, "the delimiter that follows is never consumed"); }
    }
    VERIF_END();
}
