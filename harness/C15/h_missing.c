/* C15: STEPattribute::STEPread on a MISSING value ("$", or nothing before the delimiter), for one base kind per query
 * (KIND: 0 INTEGER, 1 REAL, 2 NUMBER, 3 STRING; 4 BOOLEAN, 5 LOGICAL, 6 BINARY = "every other kind"), with symbolic OPTIONAL flag, strict flag
 * and text form.  Decision table of the property:
 *   OPTIONAL                      -> accepted (no error)
 *   required, strict              -> INCOMPLETE
 *   required, lenient, INTEGER/REAL/NUMBER/STRING -> accepted with a USER MESSAGE, value 0 / 0.0 / 0 / '' substituted, and that
 *                                    substituted value is what is written back
 *   required, lenient, other kind -> INCOMPLETE
 * and the stream is left at the delimiter.                                                                              */
#ifndef KIND
#define KIND 0
#endif
#define VERIF_INPUTS(S,A) S(unsigned char,optional) S(unsigned char,strict) S(unsigned char,form)
#include "verif.h"
int w_attr_read(int kind, const char *text, int optional, int strict, long *ival, double *rval, long *pos, char *written, int cap);
#ifndef NATIVE
/* decimal->double conversion is uninterpreted in the model; the only literal converted here is the filler "0.0" / "0" */
double __verif_strtod(const char *s, int n, int *ok) { int i, zero = n > 0; for(i = 0; i < 8; i++) if(i < n && s[i] != '0' && s[i] != '.') zero = 0; *ok = 1; if(zero) return 0.0; { double d; return d; } }
#endif
#define SEV_INCOMPLETE 1
#define SEV_USERMSG 2
#define SEV_NULL 3
void harness(void) {
    char t[5], w[12]; long iv, pos; double rv; int sev;
    VERIF_BEGIN();
    ASSUME(form < 4); optional &= 1; strict &= 1;
    if(form == 0) { t[0] = '$'; t[1] = ','; t[2] = 0; } else if(form == 1) { t[0] = ','; t[1] = 0; } else if(form == 2) { t[0] = ' '; t[1] = '$'; t[2] = ' '; t[3] = ')'; t[4] = 0; } else { t[0] = ' '; t[1] = ')'; t[2] = 0; }
#ifdef EXCLUDE_KF_C15_1
    /* known finding KF-C15-1 assumed away: lenient mode, required INTEGER/REAL/NUMBER */
    ASSUME(!(KIND <= 2 && !optional && !strict));
#endif
    sev = w_attr_read(KIND, t, optional, strict, &iv, &rv, &pos, w, 12);
    OBS("kind=%d text=[%s] opt=%d strict=%d sev=%d iv=%ld rv=%g pos=%ld written=[%s]", KIND, t, optional, strict, sev, iv, rv, pos, w);
    CHECK(t[pos] == ',' || t[pos] == ')', "the stream is left at the delimiter");
    if(optional) CHECK(sev == SEV_NULL, "an unset OPTIONAL attribute is accepted");
    else if(strict) CHECK(sev == SEV_INCOMPLETE, "strict mode: a missing required attribute makes the instance incomplete");
    else if(KIND <= 3) {
        CHECK(sev == SEV_USERMSG, "lenient mode: missing required INTEGER/REAL/NUMBER/STRING is accepted with a user message");
        if(KIND == 0) { CHECK(iv == 0, "lenient INTEGER is replaced by 0"); CHECK(w[0] == '0' && w[1] == 0, "the substituted 0 is what is written back"); }
        if(KIND == 1 || KIND == 2) CHECK(rv == 0.0, "lenient REAL/NUMBER is replaced by 0.0");
        if(KIND == 3) CHECK(w[0] == '\'' && w[1] == '\'' && w[2] == 0, "lenient STRING is replaced by the empty string, written back as ''");
    } else CHECK(sev == SEV_INCOMPLETE, "every other kind of required attribute is incomplete in both modes");
    VERIF_END();
}
