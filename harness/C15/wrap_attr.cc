// extern "C" entry point over STEPattribute::STEPread / STEPwrite with real TypeDescriptor / AttrDescriptor objects
#include "clstepcore/STEPattribute.h"
#include "clstepcore/ExpDict.h"
#include "clstepcore/sdai.h"
#include <sstream>
#include "../common/stdstreams.h"
static char owner_raw[sizeof(EntityDescriptor)] __attribute__((aligned(16)));
static void put(const std::string &s, char *out, int cap) { int i = 0; for(; i < (int)s.size() && i < cap - 1; i++) out[i] = s[i]; out[i] = 0; }
#ifndef KIND
#define KIND 0
#endif
extern "C" {
// KIND (compile time): 0 INTEGER, 1 REAL, 2 NUMBER, 3 STRING, 4 BOOLEAN, 5 LOGICAL, 6 BINARY.  Returns the severity of STEPread; INTEGER and STRING are written back with STEPwrite.
__attribute__((noinline)) int w_attr_read(int kind, const char *text, int optional, int strict, long *ival, double *rval, long *pos, char *written, int cap) {
    SDAI_Integer iv = 77; SDAI_Real rv = 7.5; (void)kind;
#if KIND == 0
    TypeDescriptor td("Integer", INTEGER_TYPE, (Schema *)0, "Integer");   // the 3-argument constructor is declared but never defined in the library
#elif KIND == 1
    TypeDescriptor td("Real", REAL_TYPE, (Schema *)0, "Real");
#elif KIND == 2
    TypeDescriptor td("Number", NUMBER_TYPE, (Schema *)0, "Number");
#elif KIND == 3
    TypeDescriptor td("String", STRING_TYPE, (Schema *)0, "String"); SDAI_String sv;
#elif KIND == 4
    TypeDescriptor td("Boolean", BOOLEAN_TYPE, (Schema *)0, "Boolean"); SDAI_BOOLEAN bv; bv.set_null();
#elif KIND == 5
    TypeDescriptor td("Logical", LOGICAL_TYPE, (Schema *)0, "Logical"); SDAI_LOGICAL lv; lv.set_null();
#else
    TypeDescriptor td("Binary", BINARY_TYPE, (Schema *)0, "Binary"); SDAI_Binary binv;
#endif
    AttrDescriptor ad("a", &td, optional ? LTrue : LFalse, LFalse, AttrType_Explicit, *(EntityDescriptor *)owner_raw);
#if KIND == 0
    STEPattribute attr(ad, &iv);
#elif KIND == 1 || KIND == 2
    STEPattribute attr(ad, &rv);
#elif KIND == 3
    STEPattribute attr(ad, &sv);
#elif KIND == 4
    STEPattribute attr(ad, (SDAI_Enum *)&bv);
#elif KIND == 5
    STEPattribute attr(ad, (SDAI_Enum *)&lv);
#else
    STEPattribute attr(ad, &binv);
#endif
    std::istringstream in(text);
    Severity s = attr.STEPread(in, 0, 0, 0, strict != 0);
    *ival = iv; *rval = rv; *pos = verif_pos(in);
    written[0] = 0;
#if KIND == 0 || KIND == 3
    { std::ostringstream o; attr.STEPwrite(o); put(o.str(), written, cap); }
#endif
    return (int)s;
}
}
