from vrun import H
LEVEL_TEXT = ('Bounded model checking of STEPattribute::STEPread (IR-translated real code, real TypeDescriptor/AttrDescriptor objects) on missing values: '
  'OPTIONAL flag, strict flag and text form symbolic, base kind forked per query, against the decision table of the property.')
SRCS = ['src/clstepcore/STEPattribute.cc', 'src/clstepcore/typeDescriptor.cc', 'src/clstepcore/attrDescriptor.cc', 'src/clstepcore/read_func.cc', 'src/clutils/Str.cc', 'src/clstepcore/sdai.cc',
        'src/cldai/sdaiEnum.cc', 'src/cldai/sdaiString.cc', 'src/cldai/sdaiBinary.cc']
KN = ['INTEGER', 'REAL', 'NUMBER', 'STRING', 'BOOLEAN (every other kind)', 'LOGICAL (every other kind)', 'BINARY (every other kind)']
HARNESSES = [
  H('missing_%d' % k, 'irc', 'harness/C15/h_missing.c', wrapper='harness/C15/wrap_attr.cc', repo_srcs=SRCS, irc_extra_cc=['harness/common/errordesc_stub.cc'],
    native_lib=['src/clstepcore', 'src/clutils', 'src/cldai'], models=['lib/cmodels/cxx_rt.c', 'lib/cmodels/printf_null.c', 'lib/cmodels/sprintf_only.c'],
    defs={'KIND': k, 'HARNESS_STRTOD': 1, 'VSTR_CAP': 10, 'VSTREAM_CAP': 8, 'VOSTREAM_CAP': 10, 'VCONT_CAP': 4}, unwind=12, object_bits=11,
    bounds='%s attribute; text in {"$,"  ","  " $ )"  " )"}; OPTIONAL and strict flags symbolic' % KN[k],
    samples=[{'optional': 0, 'strict': 0, 'form': 0}, {'optional': 1, 'strict': 0, 'form': 1}, {'optional': 0, 'strict': 1, 'form': 2}, {'optional': 0, 'strict': 0, 'form': 3}],
    stubs=['vstd model', 'ErrorDescriptor messages dropped', 'owner EntityDescriptor: raw storage (never dereferenced)', 'callees of the SELECT / ENTITY / aggregate / undefined branches of STEPread/STEPwrite/set_null are left without body: those branches are not taken for the five kinds driven here'],
    timeout={'quick': 900, 'thorough': 2700},
    allow_undef=['_Z13ReadEntityRefRSt7istreamP15ErrorDescriptorPKcP11InstMgrBasei', '_Z16EntityValidLevelP25SDAI_Application_instancePK14TypeDescriptorP15ErrorDescriptor', '_ZN11SDAI_Select5ErrorEv', '_ZN11SDAI_Select7is_nullEv', '_ZN11SDAI_Select8STEPreadERSt7istreamP15ErrorDescriptorP11InstMgrBasePKciS7_', '_ZN11SDAI_Select8set_nullEv', '_ZN12SCLundefined7is_nullEv', '_ZN12SCLundefined8set_nullEv', '_ZN16Where_rule__listD1Ev', '_ZN25SDAI_Application_instance19STEPwrite_referenceERSt7ostream', '_ZNK11SDAI_Select9STEPwriteERSt7ostreamPKc', '_ZNK9SchRename6renameEPKcPc', '_ZN12SCLundefined8STEPreadERSt7istreamP15ErrorDescriptorPKc', '_ZN12SCLundefined9STEPwriteERSt7ostream', '_ZN13STEPaggregate8STEPreadERSt7istreamP15ErrorDescriptorPK14TypeDescriptorP11InstMgrBaseiPKc', '_ZNK13STEPaggregate9STEPwriteERSt7ostreamPKc', '_ZN13STEPaggregate5EmptyEv'],
    out_of_claim='how STEPfile maps USERMSG/INCOMPLETE to the file verdict and exit status, inherited attributes, complex parts, derived/redefined attributes') for k in (0, 1, 2, 3, 4, 5, 6)
]
JOBS = 7
MANIFEST = {
  'level_text': 'Bounded model checking of the real STEPattribute::STEPread on missing values: for every combination of OPTIONAL, strict/lenient and the four text forms of an unset value, and for INTEGER/REAL/NUMBER/STRING and the other kinds BOOLEAN, LOGICAL, BINARY, the severity follows the documented table (optional accepted; strict INCOMPLETE; lenient numeric/string accepted with a user message and 0 / 0.0 / empty string substituted and written back; other kinds INCOMPLETE) and the stream stops at the delimiter.',
  'level_note': 'Trusted: CBMC, ir2c, vstd. Real TypeDescriptor/AttrDescriptor/STEPattribute objects, owner descriptor is raw storage. Outside: the mapping of attribute severities to the file verdict / exit status, attribute positions, inheritance, complex parts.',
  'technique': 'CBMC bounded model checking of IR-translated STEPattribute::STEPread with symbolic optional/strict flags against the property decision table',
  'design_ref': 'DESIGN.md section 2, C15',
}
