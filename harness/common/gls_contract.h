// Assume-guarantee cut for scanner harnesses: the stream effect of GetLiteralStr (src/clutils/Str.cc) written without the accumulated
// std::string -- the "ends with \S\" test becomes a three-character window.  The lemma harness gls_equiv (harness/C10/h_gls.c) proves
// real == contract on every stream within its bound: same end position, stream state, error severity, and the returned text is empty
// exactly when the real one is (callers branch on empty(); the text itself is outside the contract: the contract returns "'").
// With -DGLS_CONTRACT the contract is linked under the name GetLiteralStr and the real definition in Str.cc is compiled under the
// name GetLiteralStr__real (per-source flag of the IR build), so every other function of Str.cc stays the real code.
#ifndef GLS_CONTRACT_H
#define GLS_CONTRACT_H
#include "clutils/Str.h"
std::string GetLiteralStr_contract(istream &in, ErrorDescriptor *err) {
    in >> std::ws;
    if(in.good() && in.peek() == STRING_DELIM) {
        int c1 = in.get(), c2 = -1, c3 = -1;
        bool allDelimsEscaped = true;
        while(in.good()) {
            if(in.peek() == STRING_DELIM) {
                if(!(c3 == '\\' && c2 == 'S' && c1 == '\\')) allDelimsEscaped = !allDelimsEscaped;
            } else if(!allDelimsEscaped) break;
            if(!in.eof()) { int c = in.get(); c3 = c2; c2 = c1; c1 = c; }
        }
        if(allDelimsEscaped) {
            err->AppendToDetailMsg("Missing closing quote on string value.\n");
            err->AppendToUserMsg("Missing closing quote on string value.\n");
            err->GreaterSeverity(SEVERITY_INPUT_ERROR);
        }
        return std::string("'");
    }
    return std::string();
}
#if defined(VSTD) && defined(GLS_CONTRACT)
std::string GetLiteralStr(istream &in, ErrorDescriptor *err) { return GetLiteralStr_contract(in, err); }
#endif
#endif
