// ErrorDescriptor: message text is dropped ("logging gets an empty body"), severity logic (inline in errordesc.h) is the real code.
// Used in the IR (CBMC) build only; the native replay build links the real src/clutils/errordesc.cc.
#include "clutils/errordesc.h"
DebugLevel ErrorDescriptor::_debug_level = DEBUG_OFF;
ostream  * ErrorDescriptor::_out = 0;
ErrorDescriptor::ErrorDescriptor( Severity s,  DebugLevel d ) : _severity( s ) { (void)d; }
ErrorDescriptor::~ErrorDescriptor( void ) {}
void ErrorDescriptor::UserMsg( const char * ) {}
void ErrorDescriptor::PrependToUserMsg( const char * ) {}
void ErrorDescriptor::AppendToUserMsg( const char ) {}
void ErrorDescriptor::AppendToUserMsg( const char * ) {}
void ErrorDescriptor::DetailMsg( const char * ) {}
void ErrorDescriptor::PrependToDetailMsg( const char * ) {}
void ErrorDescriptor::AppendToDetailMsg( const char ) {}
void ErrorDescriptor::AppendToDetailMsg( const char * ) {}
