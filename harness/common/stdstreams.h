// global standard streams of the vstd model (the IR build only)
#ifdef VSTD
namespace std { istream cin; ostream cout, cerr, clog; }
#endif
static inline long verif_pos(std::istream &in) { in.clear(); return (long)in.tellg(); }
