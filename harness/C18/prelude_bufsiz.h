/* parametric shrink: the name buffers are char[BUFSIZ]; checked with BUFSIZ = 15 */
#include <stdio.h>
#undef BUFSIZ
#define BUFSIZ 15
