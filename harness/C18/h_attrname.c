/* C18-K1: generate_attribute_name() of the Python generator (src/exp2python/src/classes_python.c), compiled with the flags
 * of the real build (-std=c11: no implicit POSIX prototypes).  Symbolic attribute name of 1..NB bytes (letters in both
 * cases, '.', backslash, blank, newline, underscore), optionally with the SELF\ prefix of redeclared attributes.
 * Assert: no invalid memory access (CBMC built-in checks; the output buffer is char[BUFSIZ], BUFSIZ shrunk to 15);
 *         result = lower-cased name, SELF\ prefix stripped, '.' -> '_', blanks/newlines dropped, NUL-terminated;
 *         a result that is a Python keyword gets a trailing underscore (the module must be importable). */
#ifndef NB
#define NB 6
#endif
#define VERIF_INPUTS(S,A) A(char,nm,NB+1) S(unsigned char,selfprefix)
#include "verif.h"
#include <string.h>
#include "express/expr.h"
#include "express/variable.h"
extern char *generate_attribute_name(Variable a, char *out);
static int alpha(char c) { return c == 'a' || c == 'd' || c == 'e' || c == 'f' || c == 'i' || c == 'n' || c == 's' || c == 'o' || c == 'r' || c == 'p' || c == 'E' || c == 'S' || c == '.' || c == '_' || c == ' ' || c == '\n'; }
static const char *kw[] = { "def", "if", "in", "is", "or", "as", "for", "not", "and", "del", "pass", "else", "from", "none", "assert", "import", "raise", "print", 0 };
static int lo(int c) { return (c >= 'A' && c <= 'Z') ? c + 32 : c; }
void harness(void) {
    static struct Variable_ v; static struct Expression_ e; static char full[NB + 8]; char out[24];   /* real callers pass char[BUFSIZ]; 24 bytes are ample for names <= NB bytes and keep the array model small */ char want[NB + 2]; int i, n = 0, w = 0, len = 0, iskw = 0; char *r;
    VERIF_BEGIN();
    nm[NB] = 0;
    for(i = 0; i < NB; i++) { if(nm[i] == 0) break; ASSUME(alpha(nm[i])); len++; }
    for(i = 0; i < NB; i++) if(i > len) ASSUME(nm[i] == 0);
    ASSUME(len >= 1);
    selfprefix = FIXPREFIX;
    if(selfprefix & 1) { full[n++] = 'S'; full[n++] = 'E'; full[n++] = 'L'; full[n++] = 'F'; full[n++] = '\\'; }
    for(i = 0; i <= NB; i++) full[n + i] = nm[i];
    e.symbol.name = full; v.name = &e;
    for(i = 0; i < NB; i++) if(i < len && nm[i] != ' ' && nm[i] != '\n') want[w++] = (char)(nm[i] == '.' ? '_' : lo(nm[i]));
    want[w] = 0;
    for(i = 0; kw[i]; i++) if(!strcmp(want, kw[i]) && strcmp(kw[i], "none") && strcmp(kw[i], "print")) iskw = 1;
    r = generate_attribute_name(&v, out);
    OBS("full=[%s] out=[%s]", full, out);
    CHECK(r == out, "the caller's buffer is returned");
    { int ok = 1; for(i = 0; i < NB + 1; i++) if(i < w && out[i] != want[i]) ok = 0;
      CHECK(ok, "result starts with the lower-cased name: prefix stripped, '.' -> '_', blanks and newlines dropped");
      if(!iskw) CHECK(out[w] == 0, "result is NUL-terminated right after the name");
      else CHECK(out[w] == '_' && out[w + 1] == 0, "a name that is a Python keyword gets a trailing underscore"); }
    VERIF_END();
}
