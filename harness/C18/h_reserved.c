/* C18-K2: generate_attribute_name() on every RESERVED word.  The attribute name is the k-th entry (k symbolic) of the
 * harness's own list -- the lower-case keywords of Python 3 plus the builtin "property", which the generated classes use
 * as decorator (an attribute emitted as `property` shadows it for the rest of the class body and the module no longer
 * imports) -- in an arbitrary mix of letter cases (symbolic mask), with or without the SELF\ prefix (symbolic).
 * Assert: the result is the lower-cased word followed by exactly one underscore.  Complements attr_name_p0/p1, whose
 * byte bound (5..7) is shorter than "continue", "nonlocal", "property". */
#define VERIF_INPUTS(S,A) S(unsigned char,k) S(unsigned short,casemask) S(unsigned char,selfprefix)
#include "verif.h"
#include <string.h>
#include "express/expr.h"
#include "express/variable.h"
extern char *generate_attribute_name(Variable a, char *out);
#define NW 34
#define WL 9
static const char words[NW][WL] = { "and", "as", "assert", "async", "await", "break", "class", "continue", "def", "del", "elif", "else", "except", "finally", "for", "from", "global", "if",
    "import", "in", "is", "lambda", "nonlocal", "not", "or", "pass", "raise", "return", "try", "while", "with", "yield", "property", "none" /* placeholder, replaced below */ };
void harness(void) {
    static struct Variable_ v; static struct Expression_ e; static char full[WL + 8]; char out[24]; char low[WL]; int i, n = 0, len = 0; char *r;
    VERIF_BEGIN();
    ASSUME(k < NW - 1);   /* the last slot is not a reserved word */
    for(i = 0; i < WL; i++) { low[i] = words[k][i]; }
    for(i = 0; i < WL; i++) if(low[i] && len == i) len = i + 1;
    if(selfprefix & 1) { full[n++] = 'S'; full[n++] = 'E'; full[n++] = 'L'; full[n++] = 'F'; full[n++] = '\\'; }
    for(i = 0; i < WL; i++) { char c = low[i]; if(c && ((casemask >> i) & 1)) c = (char)(c - 32); full[n + i] = c; }
    full[n + WL - 1] = 0;
    e.symbol.name = full; v.name = &e;
    r = generate_attribute_name(&v, out);
    OBS("full=[%s] out=[%s]", full, out);
    CHECK(r == out, "the caller's buffer is returned");
    { int ok = 1; for(i = 0; i < WL; i++) if(i < len && out[i] != low[i]) ok = 0;
      CHECK(ok, "the reserved word is lower-cased");
      CHECK(out[len] == '_' && out[len + 1] == 0, "every reserved word (Python keyword or the builtin property) gets exactly one trailing underscore"); }
    VERIF_END();
}
