from vrun import H
LEVEL_TEXT = ('Bounded model checking (CBMC) of the attribute-name kernel of the Python generator, compiled by goto-cc with the flags of the real build (-std=c11), '
  'with symbolic attribute names; CBMC built-in checks give memory safety, functional CHECKs give the naming rule.')
SMALL = ['-include', '/verif/harness/C18/prelude_bufsiz.h']
HARNESSES = [
  H('attr_name_p%d' % p, 'c', 'harness/C18/h_attrname.c', repo_srcs=['src/exp2python/src/classes_python.c', 'src/exp2python/src/classes_misc_python.c'],
    cflags=['-DHAVE_CONFIG_H', '-I/repo/src/exp2python/src'], native_cflags=['-DHAVE_CONFIG_H'], unwind_is_violation=True, models=['lib/cmodels/printf_null.c'],
    defs={'quick': {'NB': 5, 'FIXPREFIX': p}, 'thorough': {'NB': 7, 'FIXPREFIX': p}}, unwind={'quick': 13, 'thorough': 15}, unwindset=['is_python_keyword.0:40', 'harness.4:24'], object_bits=10, mem_gb=24,   # copy loops need name + prefix + 1 iterations (a loop that runs on is the defect); 40 is for the keyword table scan
    bounds='attribute names of 1..5 (7) bytes over {a d e f i n s o r p E S . _ blank newline}, %s the SELF\\\\ prefix; real BUFSIZ (a copy loop that runs past the unwind bound is reported and replayed under ASan)' % ('with' if p else 'without'),
    stubs=['fprintf etc.: empty bodies (not reached)'], out_of_claim='constructor parameter order, type definitions, importability of the whole module, names longer than the bound') for p in (0, 1)
] + [
  H('attr_name_reserved', 'c', 'harness/C18/h_reserved.c', repo_srcs=['src/exp2python/src/classes_python.c', 'src/exp2python/src/classes_misc_python.c'],
    cflags=['-DHAVE_CONFIG_H', '-I/repo/src/exp2python/src'], native_cflags=['-DHAVE_CONFIG_H'], unwind_is_violation=True, models=['lib/cmodels/printf_null.c'],
    unwind=40, object_bits=10,
    bounds='the attribute name is any of the 32 lower-case Python 3 keywords or the builtin property (symbolic index), in any mix of letter cases (symbolic mask), with or without the SELF\\\\ prefix (symbolic)',
    stubs=['fprintf etc.: empty bodies (not reached)'], out_of_claim='non-reserved names (attr_name_p0/p1), soft keywords (match, case), True/False/None (attribute names are lower-cased)')
]
JOBS = 4
MANIFEST = {
  'level_text': 'Bounded model checking of the attribute-name kernel of the Python generator as built by the real build (-std=c11): for every attribute name within the byte bound (with and without the SELF\\\\ prefix) generate_attribute_name performs no invalid memory access and returns the lower-cased, prefix-stripped, NUL-terminated name, with a trailing underscore when it would collide with a Python keyword; every reserved word (the 32 lower-case keywords and the builtin property, any letter case, with or without prefix) gets exactly one. Only this kernel is claimed.',
  'level_note': 'Trusted: CBMC, goto-cc front end (implicit declarations as gcc -std=c11). Outside: class/constructor emission order, type definitions, selects, importability of the generated module, the runtime package.',
  'technique': 'CBMC bounded model checking of goto-cc-compiled classes_python.c (real -std=c11 flags) with symbolic attribute names; ASan replay',
  'design_ref': 'DESIGN.md section 2, C18',
}
