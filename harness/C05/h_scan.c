/* C05-K4: the Part 21 scanning helpers of read_func.cc on ARBITRARY bytes (<= NB, premature EOF at every offset).
 * Assertion: CBMC's built-in pointer/bounds/overflow checks (memory safety), unwinding assertions at bound+slack
 * (each loop consumes input or leaves: termination within the bound), and the stream position stays inside the input. */
#ifndef NB
#define NB 6
#endif
#ifndef WHICH
#define WHICH 0
#endif
#define VERIF_INPUTS(S,A) A(char,bytes,NB+1)
#include "verif.h"
int w_scan(int which, const char *bytes, long *pos, int *outlen);
static int alpha(char c) {
    /* Part 21 punctuation alphabet + representatives of letters/digits/blank; 0 = end of input (premature EOF at every offset) */
    return c == '#' || c == '\'' || c == '(' || c == ')' || c == '/' || c == '*' || c == ',' || c == ';' || c == '\\' || c == '!' || c == '-' || c == '_' || c == '$' || c == '.' || c == '='
        || c == (char)0xE9 /* a byte >= 0x80: negative as plain char */ || c == 'E' || c == 'N' || c == 'D' || c == 'S' || c == 'C' || c == 'F' || c == 'a' || c == '1' || c == ' ' || c == '\n';
}
void harness(void) {
    int i, len = 0, r, outlen; long pos;
    VERIF_BEGIN();
    bytes[NB] = 0;
    for(i = 0; i < NB; i++) { if(bytes[i] == 0) break; ASSUME(alpha(bytes[i])); len++; }
    for(i = 0; i < NB; i++) if(i > len) ASSUME(bytes[i] == 0);
    r = w_scan(WHICH, bytes, &pos, &outlen);
#ifdef GLS_CONTRACT
    OBS("bytes=[%s] r=%d pos=%ld", bytes, r, pos);   /* the collected text is outside the contract of GetLiteralStr */
#else
    OBS("bytes=[%s] r=%d pos=%ld outlen=%d", bytes, r, pos, outlen);
#endif
    CHECK(pos >= 0 && pos <= len, "stream position stays inside the input");
    VERIF_END();
}
