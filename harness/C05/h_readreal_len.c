/* C05-K1: ReadReal collects the token's characters before converting them: tokens of ANY length must be safe.
 * Shape digits '.' digits [E digits]; the three segment lengths are symbolic (content concretised), total <= MAXLEN. */
#ifndef MAXLEN
#define MAXLEN 70
#endif
#define VERIF_INPUTS(S,A) S(unsigned char,n1) S(unsigned char,n2) S(unsigned char,n3) S(unsigned char,hasE)
#include "verif.h"
int w_readreal_len(const char *tok, long *pos, int *sev);
static char tok[MAXLEN + 8];
void harness(void) {
    int i, n = 0, r, sev; long pos;
    VERIF_BEGIN();
    ASSUME(n1 >= 1 && n1 <= MAXLEN && n2 <= MAXLEN && n3 <= 3);
    ASSUME((int)n1 + n2 + n3 + 3 <= MAXLEN);
#ifdef SHORT_TAIL
    ASSUME(n2 <= 2 && n3 <= 2);
#endif
    for(i = 0; i < MAXLEN; i++) if(i < n1) tok[n++] = '1';
    tok[n++] = '.';
    for(i = 0; i < 3; i++) if(i < n2) tok[n++] = '2';
    if((hasE & 1) && n3 > 0) { tok[n++] = 'E'; for(i = 0; i < 3; i++) if(i < n3) tok[n++] = '3'; }
    tok[n++] = ','; tok[n] = 0;
    r = w_readreal_len(tok, &pos, &sev);
    OBS("n=%d r=%d pos=%ld sev=%d", n, r, pos, sev);
    CHECK(pos == n - 1, "the whole token is consumed and the stream is left at the delimiter");
    VERIF_END();
}
