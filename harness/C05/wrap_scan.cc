// extern "C" entry points over the Part 21 scanning helpers (read_func.cc, Str.cc)
#include "clstepcore/sdai.h"
#include "clstepcore/read_func.h"
#include "clutils/Str.h"
#include <sstream>
#include <string.h>
#include "../common/stdstreams.h"
#ifdef GLS_CONTRACT
#include "../common/gls_contract.h"   // GetLiteralStr replaced by its proven contract (C10 gls_equiv); Str.cc's own definition is renamed in the IR build
#endif
extern "C" {
__attribute__((noinline)) int w_scan(int which, const char *bytes, long *pos, int *outlen) {
    std::istringstream in(bytes);
    ErrorDescriptor e; std::string s; int r = 0;
    switch(which) {
    case 0: ReadTokenSeparator(in, &s); break;
    case 1: { const char *p = ReadComment(in, s); r = p != 0; } break;
    case 2: r = (int)ReadPcd(in); break;
    case 3: r = FoundEndSecKywd(in); break;
    case 4: { const char *k = GetKeyword(in, "(;", e); s = k; } break;
    case 5: ReadStdKeyword(in, s, 1); break;
    case 6: r = (int)SkipInstance(in, s); break;
    case 7: r = (int)FindStartOfInstance(in, s); break;
    case 8: PushPastImbedAggr(in, s, &e); break;
    case 9: PushPastAggr1Dim(in, s, &e); break;
    case 10: SkipSimpleRecord(in, s, &e); break;
    case 11: r = (int)CheckRemainingInput(in, &e, "x", ",)"); break;
    case 12: { std::string c2; const char *p = ReadComment(c2, bytes); r = (int)(p - bytes); s = c2; } break;
    }
    *pos = verif_pos(in);
    *outlen = (int)s.size();
    return r * 16 + (int)e.severity() + 8;
}
// SkipInstance alone: returns 1 for SEVERITY_NULL (terminating semicolon found), 0 otherwise; *pos = stream position afterwards
__attribute__((noinline)) int w_skip_instance(const char *bytes, long *pos) {
    std::istringstream in(bytes); std::string s;
    Severity r = SkipInstance(in, s);
    *pos = verif_pos(in);
    return r == SEVERITY_NULL ? 1 : 0;
}
// Str.cc case helpers with BUFSIZ-sized scratch buffers; returns length of the result, copies it to out
__attribute__((noinline)) int w_strcase(int which, const char *word, char *out, int cap) {
    std::string s; const char *r = 0;
    switch(which) {
    case 0: r = StrToUpper(word, s); break;
    case 1: r = StrToLower(word, s); break;
    case 2: r = StrToConstant(word, s); break;
    default: r = PrettyTmpName(word); break;
    }
    int i = 0; for(; r[i] && i < cap - 1; i++) out[i] = r[i]; out[i] = 0;
    return i;
}
__attribute__((noinline)) int w_readreal_len(const char *tok, long *pos, int *sev) {
    std::istringstream in(tok); ErrorDescriptor e; SDAI_Real v = 0;
    int r = ReadReal(v, in, &e, ",)");
    *pos = verif_pos(in); *sev = (int)e.severity();
    return r;
}
}
