/* parametric shrink (stated bound): the code under test is written in terms of BUFSIZ and MAX_COMMENT_LENGTH;
 * the harness checks it with BUFSIZ = 15 and MAX_COMMENT_LENGTH = 6 so that the buffer ends lie inside the byte bound */
#include <stdio.h>
#undef BUFSIZ
#define BUFSIZ 15
#ifdef __cplusplus
#include "clstepcore/read_func.h"
#undef MAX_COMMENT_LENGTH
#define MAX_COMMENT_LENGTH 6
#endif
