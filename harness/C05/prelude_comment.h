/* parametric shrink (stated bound): MAX_COMMENT_LENGTH = 6 so that the comment-length recovery path lies inside the byte bound */
#ifdef __cplusplus
#include "clstepcore/read_func.h"
#undef MAX_COMMENT_LENGTH
#define MAX_COMMENT_LENGTH 6
#endif
