/* C05-K2: StrToUpper / StrToLower / StrToConstant / PrettyTmpName (Str.cc) copy their argument through BUFSIZ-sized
 * scratch buffers; the argument comes from the exchange file (enumeration items, entity keywords).
 * BUFSIZ is shrunk to 15 (prelude_small.h); symbolic words of <= NB bytes, NB > BUFSIZ. */
#ifndef NB
#define NB 18
#endif
#ifndef WHICH
#define WHICH 0
#endif
#define VERIF_INPUTS(S,A) A(char,word,NB+1)
#include "verif.h"
int w_strcase(int which, const char *word, char *out, int cap);
static int up(int c) { return (c >= 'a' && c <= 'z') ? c - 32 : c; }
static int lo(int c) { return (c >= 'A' && c <= 'Z') ? c + 32 : c; }
void harness(void) {
    int i, len = 0, n; char out[NB + 4];
    VERIF_BEGIN();
    word[NB] = 0;
    for(i = 0; i < NB; i++) { if(word[i] == 0) break; ASSUME(word[i] == 'a' || word[i] == 'B' || word[i] == '_' || word[i] == '.' || word[i] == '/' || word[i] == '1'); len++; }
    for(i = 0; i < NB; i++) if(i > len) ASSUME(word[i] == 0);
#ifdef EXCLUDE_LONG
    ASSUME(len <= 15);
#endif
    n = w_strcase(WHICH, word, out, NB + 4);
    OBS("word=[%s] out=[%s]", word, out);
    if(WHICH <= 2) {
        int ok = (n == len);
        for(i = 0; i < NB; i++) if(i < len) {
            int e = WHICH == 0 ? up(word[i]) : (WHICH == 1 ? lo(word[i]) : ((word[i] == '/' || word[i] == '.') ? '_' : up(word[i])));
            if(out[i] != e) ok = 0;
        }
        CHECK(ok, "case conversion returns the whole word, converted character by character");
    }
    VERIF_END();
}
