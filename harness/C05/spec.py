from vrun import H
LEVEL_TEXT = ('Bounded model checking of the Part 21 reading kernels that own fixed buffers or scan untrusted bytes (read_func.cc, Str.cc): CBMC built-in pointer/bounds/overflow '
  'checks over the IR-translated real code, arbitrary bytes / symbolic lengths within the stated bounds, unwinding assertions for termination.')
SRCS = ['src/clstepcore/read_func.cc', 'src/clutils/Str.cc', 'src/clstepcore/sdai.cc', 'src/cldai/sdaiEnum.cc', 'src/cldai/sdaiString.cc']
COMMON = dict(repo_srcs=SRCS, irc_extra_cc=['harness/common/errordesc_stub.cc'], wrapper='harness/C05/wrap_scan.cc', unwind_is_violation=True,   # termination is part of C05: a loop that runs past the bound is replayed natively (hang = violation, otherwise machinery fault)
    native_srcs=SRCS + ['src/clutils/errordesc.cc'], models=['lib/cmodels/cxx_rt.c', 'lib/cmodels/printf_null.c', 'lib/cmodels/sprintf_null.c'],
    stubs=['vstd stream/string model (std::string saturating at VSTR_CAP with an overflow flag)', 'ErrorDescriptor messages dropped', 'sprintf of diagnostic text: empty string'])
SCAN = ['ReadTokenSeparator', 'ReadComment(istream)', 'ReadPcd', 'FoundEndSecKywd', 'GetKeyword', 'ReadStdKeyword', 'SkipInstance', 'FindStartOfInstance', 'PushPastImbedAggr', 'PushPastAggr1Dim', 'SkipSimpleRecord', 'CheckRemainingInput', 'ReadComment(string)']
SMALL = ['-include', '/verif/harness/C05/prelude_small.h']
CMT = ['-include', '/verif/harness/C05/prelude_comment.h']
NBQ = {0: 3, 1: 3, 6: 3, 7: 3, 8: 3, 9: 3, 10: 3}   # scanners that call SDAI_String::STEPread / recurse: measured to need the smaller bound
HEAVY = set(NBQ)
NBC = {6: 5, 7: 5, 9: 5}   # byte bounds of the scanners that run over the GetLiteralStr contract (measured)
HARNESSES = [
  H('readreal_len', 'irc', 'harness/C05/h_readreal_len.c', tiers=('thorough',), timeout={'thorough': 1800}, defs={'MAXLEN': 70, 'SHORT_TAIL': 1, 'VSTR_CAP': 74, 'VSTREAM_CAP': 74, 'VOSTREAM_CAP': 8}, unwind=76,
    bounds='ReadReal: tokens digits.digits[Edigits], of total length <= 70, integer part of 1..66 digits (length symbolic), <= 2 fraction digits, optional E + <= 2 digits (content concretised)',
    samples=[{'n1': 1, 'n2': 1, 'n3': 0, 'hasE': 0}, {'n1': 40, 'n2': 25, 'n3': 2, 'hasE': 1}, {'n1': 60, 'n2': 3, 'n3': 0, 'hasE': 0}],
    out_of_claim='tokens longer than 70 characters', **COMMON),
] + [
  H('strcase_%d' % w, 'irc', 'harness/C05/h_strcase.c', defs={'WHICH': w, 'NB': 18, 'VSTR_CAP': 24, 'VSTREAM_CAP': 8, 'VOSTREAM_CAP': 8}, unwind=26,
    cflags=SMALL, native_cflags=SMALL,
    bounds='%s with BUFSIZ shrunk to 15: every word of <= 18 bytes over {a B _ . / 1}' % ['StrToUpper', 'StrToLower', 'StrToConstant', 'PrettyTmpName'][w],
    samples=[{'word': 'aB_1'}, {'word': 'a.B/a'}, {'word': 'aaaaaaaaaaaaaaaaa'}, {'word': 'aaaaaaaaaaaaaa_a'}],
    out_of_claim='the real BUFSIZ (8192): same code, larger constant', **COMMON) for w in range(4)
] + [
  # scanners built on SDAI_String::STEPread (-> GetLiteralStr): run over the proven string-free contract of GetLiteralStr (assume-guarantee, lemma: C10 gls_equiv)
  H('scan_%02d' % w, 'irc', 'harness/C05/h_scan.c', irc_src_flags={'src/clutils/Str.cc': ['-DGetLiteralStr=GetLiteralStr__real']},
    defs={'quick': {'WHICH': w, 'NB': NBC[w], 'GLS_CONTRACT': 1, 'VSTR_CAP': 8, 'VSTREAM_CAP': 8, 'VOSTREAM_CAP': 8}, 'thorough': {'WHICH': w, 'NB': NBC[w] + 1, 'GLS_CONTRACT': 1, 'VSTR_CAP': 10, 'VSTREAM_CAP': 10, 'VOSTREAM_CAP': 8}},
    unwind={'quick': NBC[w] + 7, 'thorough': NBC[w] + 8}, cflags=CMT, native_cflags=CMT, object_bits=10, timeout={'quick': 900, 'thorough': 3600},
    bounds='%s on every byte string of <= %d (%d) bytes over the Part 21 punctuation alphabet + letter/digit/blank/newline representatives, ending anywhere (premature EOF)' % (SCAN[w], NBC[w], NBC[w] + 1),
    samples=[{'bytes': "'a;'"}, {'bytes': "a';"}, {'bytes': "(()"}, {'bytes': "#1=a;"}, {'bytes': "a;"}, {'bytes': "('a')"}],
    out_of_claim='inputs longer than the bound; whole-file reads; the text collected while skipping', **dict(COMMON, stubs=COMMON['stubs'] + ['GetLiteralStr: replaced by GetLiteralStr_contract (proven equivalent in stream effect and emptiness of the result by C10 gls_equiv)'])) for w in (6, 7, 9)   # 8, 10 (PushPastImbedAggr, SkipSimpleRecord: recursive): witness twin not finished in 600 s at 4 bytes even over the contract
] + [
  H('skip_instance', 'irc', 'harness/C05/h_skipinst.c', irc_src_flags={'src/clutils/Str.cc': ['-DGetLiteralStr=GetLiteralStr__real']},
    defs={'quick': {'NB': 6, 'GLS_CONTRACT': 1, 'VSTR_CAP': 8, 'VSTREAM_CAP': 8, 'VOSTREAM_CAP': 8}, 'thorough': {'NB': 7, 'GLS_CONTRACT': 1, 'VSTR_CAP': 10, 'VSTREAM_CAP': 10, 'VOSTREAM_CAP': 8}},
    unwind={'quick': 13, 'thorough': 14}, cflags=CMT, native_cflags=CMT, object_bits=10, timeout={'quick': 1200, 'thorough': 3600},
    bounds='SkipInstance on every byte string of <= 6 (7) bytes over {; quote backslash S a ( blank #}, ending anywhere; functional oracle (first semicolon outside string literals)',
    samples=[{'bytes': "'a;'"}, {'bytes': "a';"}, {'bytes': "';';"}, {'bytes': "#1=a;"}, {'bytes': "a;b;"}, {'bytes': "'\\\\S\\\\';"}, {'bytes': "''';"}],
    out_of_claim='comments inside a skipped record (SkipInstance does not recognise them), inputs longer than the bound, the text collected while skipping', **dict(COMMON, stubs=COMMON['stubs'] + ['GetLiteralStr: replaced by GetLiteralStr_contract (proven equivalent in stream effect and emptiness of the result by C10 gls_equiv)'])),
] + [
  H('scan_%02d' % w, 'irc', 'harness/C05/h_scan.c',
    defs={'quick': {'WHICH': w, 'NB': NBQ.get(w, 6), 'VSTR_CAP': 12 if w in HEAVY else 16, 'VSTREAM_CAP': 6 if w in HEAVY else 8, 'VOSTREAM_CAP': 8}, 'thorough': {'WHICH': w, 'NB': NBQ.get(w, 6) + 2, 'VSTR_CAP': 18, 'VSTREAM_CAP': 10, 'VOSTREAM_CAP': 8}},
    unwind={'quick': 14 if w in HEAVY else 18, 'thorough': 20}, cflags=CMT, native_cflags=CMT, object_bits=10,
    bounds='%s on every byte string of <= %d (thorough +2) bytes over the Part 21 punctuation alphabet + letter/digit/blank/newline representatives, ending anywhere (premature EOF); MAX_COMMENT_LENGTH shrunk to 6' % (SCAN[w], NBQ.get(w, 6)),
    samples=[{'bytes': "/* a*/"}, {'bytes': "#1=a("}, {'bytes': "'a;"}, {'bytes': "((a)"}, {'bytes': "ENDSEC"}, {'bytes': "a,"}, {'bytes': "/*"}] if w not in HEAVY else [{'bytes': "/**"}, {'bytes': "'a;"}, {'bytes': "(()"}, {'bytes': "#1"}, {'bytes': "a;"}],
    out_of_claim='inputs longer than the bound; whole-file reads', **COMMON) for w in (2, 3, 4, 5, 11, 12)   # 0,1,6,7,8,9,10 (SDAI_String-based / recursive scanners): no verdict within 300 s even at 3 bytes, not registered (DESIGN.md)
]
JOBS = 12
MANIFEST = {
  'level_text': 'Bounded model checking of the real Part 21 scanning and literal-buffer kernels: for every byte string within the bound (truncated anywhere) each scanner finishes (unwinding assertions), performs no invalid memory access (CBMC pointer/bounds checks on the translated real code) and leaves the stream inside the input; the recovery scanners built on string literals (SkipInstance, FindStartOfInstance, PushPastAggr1Dim) are checked over a proven string-free contract of GetLiteralStr, and SkipInstance additionally against a functional oracle (success exactly when a semicolon stands outside string literals, stream right behind the first such semicolon); ReadReal and the Str.cc case helpers are safe for every token length up to the bound, beyond their buffer sizes.',
  'level_note': 'Trusted: CBMC, ir2c, vstd (validated per run on samples against a g++/libstdc++ build; counterexamples replayed under ASan/UBSan). BUFSIZ and MAX_COMMENT_LENGTH are shrunk (15 / 6) by a prelude -- the code is parametric in them. Outside: whole-file reads, the complex-entity matcher, generated STEPread_content, writing, time proportional to input beyond per-loop termination.',
  'technique': 'CBMC bounded model checking (built-in memory-safety checks + unwinding assertions) of the IR-translated real scanners with symbolic bytes and lengths; ASan/UBSan replay',
  'design_ref': 'DESIGN.md section 2, C05',
}
