/* C05-K5 / C03 (resynchronisation): SkipInstance() of read_func.cc -- the routine that skips a record the reader could not
 * create -- on every byte string of <= NB bytes over { ; quote backslash S a ( blank # }, premature end anywhere.  It runs over the
 * proven string-free contract of GetLiteralStr (assume-guarantee, lemma C10 gls_equiv).  Reference in the harness: walk the bytes;
 * a quote opens a string literal that extends to the closing quote ('' is an escaped quote, a quote directly behind \S\ does not
 * count), everything else is skipped.  Assert: SkipInstance reports success exactly when a semicolon stands outside string literals,
 * and then the stream is right behind the FIRST such semicolon (the next record starts there); otherwise it reports failure at the
 * end of the input.  (Comments are not recognised by SkipInstance and are not in the alphabet: see DESIGN.md, out of claim.) */
#ifndef NB
#define NB 6
#endif
#define VERIF_INPUTS(S,A) A(char,bytes,NB+1)
#include "verif.h"
int w_skip_instance(const char *bytes, long *pos);
static int alpha(char c) { return c == ';' || c == '\'' || c == '\\' || c == 'S' || c == 'a' || c == '(' || c == ' ' || c == '#'; }
void harness(void) {
    int i, len = 0, ok, p, found = 0; long pos, want = -1;
    VERIF_BEGIN();
    bytes[NB] = 0;
    for(i = 0; i < NB; i++) { if(bytes[i] == 0) break; ASSUME(alpha(bytes[i])); len++; }
    for(i = 0; i < NB; i++) if(i > len) ASSUME(bytes[i] == 0);
    /* reference scan */
    p = 0;
    for(i = 0; i < NB + 1 && !found && p < len; i++) {
        char c = bytes[p];
        if(c == ';') { found = 1; want = p + 1; }
        else if(c == '\'') {
            int q = p + 1, esc = 1, k, stop = 0; int c1 = '\'', c2 = -1, c3 = -1;
            for(k = 0; k < NB + 1 && !stop; k++) {
                int pk = q < len ? bytes[q] : -1;
                if(pk == '\'') { if(!(c3 == '\\' && c2 == 'S' && c1 == '\\')) esc = !esc; }
                else if(!esc) stop = 1;
                if(!stop) { if(q < len) { c3 = c2; c2 = c1; c1 = bytes[q]; q++; } else stop = 1; }
            }
            p = q;
        } else p++;
    }
    ok = w_skip_instance(bytes, &pos);
    OBS("bytes=[%s] ok=%d pos=%ld", bytes, ok, pos);
    CHECK(ok == found, "SkipInstance succeeds exactly when a semicolon stands outside string literals");
    if(found) CHECK(pos == want, "the stream is right behind the first semicolon outside string literals");
    else CHECK(pos == len, "without a terminating semicolon the whole input is consumed");
    VERIF_END();
}
