"""C03 -- the reader never reports a violating value as clean, and the damage is confined to that value.
The kernels are the literal readers and the reference reader; the harness sources are shared with C09 / C14 (their
assertions already contain the 'never clean' and 'stream left at the delimiter' clauses), registered here under C03 names."""
import os, copy, importlib.util
from vrun import H, VERIF
def _load(pid):
    sp = importlib.util.spec_from_file_location('spec_for_c03_' + pid, os.path.join(VERIF, 'harness', pid, 'spec.py'))
    m = importlib.util.module_from_spec(sp); sp.loader.exec_module(m); return m
_c09 = _load('C09'); _c14 = _load('C14'); _c05 = _load('C05')
def _pick(mod, name, newname):
    h = copy.copy([x for x in mod.HARNESSES if x.name == name][0]); h.name = newname; return h
LEVEL_TEXT = ('Bounded model checking of the value readers of the Part 21 reader (IR-translated real code): every attribute text within the byte bound that is NOT in the '
  'grammar of its kind ends with a severity worse than a user message (or, for an empty value, with the "incomplete" the caller turns into an error), a reference to a '
  'non-existent instance is a WARNING with a null pointer, and the stream is left at the delimiter so that the next attribute starts where it should (confinement).')
HARNESSES = [
  _pick(_c09, 'int_tokens', 'wrong_kind_integer'),
  _pick(_c09, 'real_tokens', 'wrong_kind_real'),
  _pick(_c09, 'string_tokens', 'unterminated_string'),
  _pick(_c09, 'enum_generic3', 'undeclared_enum_item'),
  _pick(_c09, 'enum_boolean', 'bad_boolean'),
  _pick(_c14, 'entity_ref', 'dangling_reference'),
  _pick(_c05, 'skip_instance', 'resync_skip_instance'),   # confinement: the record the reader gives up on is skipped up to its own semicolon, the next record starts there
]
JOBS = 8
MANIFEST = {
  'level_text': 'Bounded model checking of the per-value readers: for every attribute text within the byte bound, a value outside the grammar of its kind (wrong literal kind, undeclared enumeration item, unterminated string, reference to a non-existent instance) is never reported clean, and the reader stops at the delimiter so the neighbouring attributes are read from the right place; a record the reader gives up on is skipped exactly up to its own semicolon (SkipInstance). Token/attribute level only.',
  'level_note': 'Trusted: as C09/C14 (CBMC, ir2c, vstd, harness instance-manager double). Outside the claim: arity checks and recovery in SDAI_Application_instance::STEPread, unknown/abstract entity keywords (Registry), duplicate ids, the callers of SkipInstance (the routine itself: resync_skip_instance), resynchronisation in STEPfile, SELECT and complex parts, the exit status of p21read.',
  'technique': 'CBMC bounded model checking of the IR-translated literal and reference readers against reference grammars (shared harnesses with C09/C14)',
  'design_ref': 'DESIGN.md section 2, C03',
}
