// extern "C" entry point over ReadEntityRef (sdaiApplication_instance.cc) with a harness instance manager that
// answers for two registered ids and records every id it is asked for
#include "clstepcore/sdai.h"
#include "clstepcore/instmgr.h"
#include <sstream>
#include "../common/stdstreams.h"
class VNode : public MgrNodeBase { public: SDAI_Application_instance * se; VNode() : se( 0 ) {} virtual SDAI_Application_instance * GetSTEPentity() { return se; } };
class VMgr : public InstMgrBase { public: int asked[4]; int n; int id0, id1; VNode n0, n1;
    VMgr() : n( 0 ), id0( 0 ), id1( 0 ) { for( int i = 0; i < 4; i++ ) { asked[i] = -7; } }
    virtual MgrNodeBase * FindFileId( int id ) { if( n < 4 ) { asked[n] = id; } n++; if( id == id0 ) { return &n0; } if( id == id1 ) { return &n1; } return 0; } };
extern "C" {
// returns which registered instance came back: 0 / 1, or -1 for null
__attribute__((noinline)) int w_read_ref(const char *s, int addFileId, int id0, int id1, int *sev, long *pos, int *asked0, int *nasked) {
    std::istringstream in(s);
    ErrorDescriptor e;
    VMgr m; m.id0 = id0; m.id1 = id1;
    m.n0.se = (SDAI_Application_instance *)&m.n0;   // opaque tokens: ReadEntityRef never dereferences the instance
    m.n1.se = (SDAI_Application_instance *)&m.n1;
    SDAI_Application_instance *r = ReadEntityRef(in, &e, ",)", &m, addFileId);
    *sev = (int)e.severity(); *pos = verif_pos(in); *asked0 = m.asked[0]; *nasked = m.n;
    if(r == m.n0.se) return 0; if(r == m.n1.se) return 1; return (r == S_ENTITY_NULL || r == 0) ? -1 : -2;
}
}
