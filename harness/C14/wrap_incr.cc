// extern "C" entry point over STEPfile::SetFileIdIncrement / IncrementFileId / FileIdIncr (STEPfile.inline.cc)
#define private public
#define protected public
#include "cleditor/STEPfile.h"
#undef private
#undef protected
#include <stdlib.h>
#include "../common/stdstreams.h"
// layout twin of the first members of STEPfile (vptr, InstMgr & _instances, Registry & _reg)
struct STEPfileHead { void *vptr; InstMgr *inst; Registry *reg; };
extern "C" {
// the STEPfile and InstMgr objects are raw storage: the three functions read _instances->maxFileId and write _fileIdIncr only
__attribute__((noinline)) int w_incr(int maxFileId, int id, int *shifted) {
    STEPfile *sf = (STEPfile *)calloc(1, sizeof(STEPfile));
    InstMgr *im = (InstMgr *)calloc(1, sizeof(InstMgr));
    im->maxFileId = maxFileId;
    // _instances is a reference member: bind it by writing the pointer into its slot (first member after the vptr, if any)
    ((STEPfileHead *)sf)->inst = im;   // typed store into the slot of the reference member (first member after the vptr)
    sf->SetFileIdIncrement();
    *shifted = sf->IncrementFileId(id);
    int r = sf->FileIdIncr();
    free(sf); free(im);
    return r;
}
}
