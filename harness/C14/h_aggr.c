/* C14-K3 (+C03): the append offset on its way through an aggregate of references.  EntityAggregate::ReadValue (STEPaggrEntity.cc) ->
 * EntityNode::STEPread -> ReadEntityRef + EntityValidLevel on the text  "(" #a [blank] "," [blank] #b ")"  with symbolic one- or
 * two-digit ids a, b, a symbolic append offset, two registered instances with symbolic ids; instance 1 is of the element's entity type
 * or (symbolic) of another entity type.
 * Assert: the manager is asked exactly twice, for a+offset then b+offset (never for an unshifted number); element k of the aggregate
 * holds the instance registered under the shifted id -- or nothing, with the read reported as not clean, when no instance bears that
 * id or the bearer is not of the element's entity type (C03: reference to an instance of the wrong type); the stream ends behind ")". */
#define VERIF_INPUTS(S,A) S(unsigned char,a1) S(unsigned char,a2) S(unsigned char,b1) S(unsigned char,b2) S(unsigned char,sp) S(int,add) S(int,id0) S(int,id1) S(unsigned char,other1)
#include "verif.h"
int w_read_ref_aggr(const char *s, int addFileId, int id0, int id1, int other1, int *sev, long *pos, int *asked, int *nasked, int *got);
#define SEV_WARNING 0
#define SEV_NULL 3
static char text[16];
void harness(void) {
    int n = 0, a, b, sev, nasked = 0, asked[4], got[3], cnt, want0, want1; long pos;
    VERIF_BEGIN();
    ASSUME(a1 <= 9 && a2 <= 10 && b1 <= 9 && b2 <= 10);   /* x2 == 10: one digit */
    ASSUME(add >= 0 && add <= 1000000); ASSUME(id0 >= 0 && id0 <= 2000000 && id1 >= 0 && id1 <= 2000000 && id0 != id1);
    got[0] = got[1] = got[2] = -9;
    text[n++] = '('; text[n++] = '#'; text[n++] = (char)('0' + a1); a = a1; if(a2 < 10) { text[n++] = (char)('0' + a2); a = a * 10 + a2; }
    if(sp & 1) text[n++] = ' '; text[n++] = ','; if(sp & 2) text[n++] = ' ';
    text[n++] = '#'; text[n++] = (char)('0' + b1); b = b1; if(b2 < 10) { text[n++] = (char)('0' + b2); b = b * 10 + b2; }
    if(sp & 4) text[n++] = ' '; text[n++] = ')'; text[n] = 0;
    cnt = w_read_ref_aggr(text, add, id0, id1, other1 & 1, &sev, &pos, asked, &nasked, got);
    OBS("text=[%s] add=%d id0=%d id1=%d other1=%d cnt=%d got=%d,%d sev=%d pos=%ld asked=%d,%d n=%d", text, add, id0, id1, other1 & 1, cnt, got[0], got[1], sev, pos, asked[0], asked[1], nasked);
    CHECK(nasked == 2 && asked[0] == a + add && asked[1] == b + add, "the manager is asked once per element, for the reference shifted by the append offset, in order");
    CHECK(cnt == 2, "the aggregate has one element per reference");
    want0 = (a + add == id0) ? 0 : ((a + add == id1) ? ((other1 & 1) ? -1 : 1) : -1);
    want1 = (b + add == id0) ? 0 : ((b + add == id1) ? ((other1 & 1) ? -1 : 1) : -1);
    CHECK(got[0] == want0 && got[1] == want1, "each element holds the instance registered under the SHIFTED id, or nothing when none (of the right entity type) bears it");
    if(want0 >= 0 && want1 >= 0) CHECK(sev == SEV_NULL, "resolvable references of the right type raise no error");
    else CHECK(sev <= SEV_WARNING, "a dangling or wrongly typed reference inside an aggregate is never reported clean");
    CHECK(pos == n, "the stream ends right behind the closing parenthesis");
    VERIF_END();
}
