// extern "C" entry point over EntityAggregate::ReadValue (STEPaggrEntity.cc) -> EntityNode::STEPread -> ReadEntityRef + EntityValidLevel,
// with the harness instance manager of wrap_ref.cc (two registered ids, look-ups recorded) and two REAL entity descriptors / instances.
#include "clstepcore/sdai.h"
#include "clstepcore/instmgr.h"
#include "clstepcore/ExpDict.h"
#include "clstepcore/STEPaggrEntity.h"
#include <sstream>
#include "../common/stdstreams.h"
class VNode : public MgrNodeBase { public: SDAI_Application_instance * se; VNode() : se( 0 ) {} virtual SDAI_Application_instance * GetSTEPentity() { return se; } };
class VMgr : public InstMgrBase { public: int asked[4]; int n; int id0, id1; VNode n0, n1;
    VMgr() : n( 0 ), id0( 0 ), id1( 0 ) { for( int i = 0; i < 4; i++ ) { asked[i] = -7; } }
    virtual MgrNodeBase * FindFileId( int id ) { if( n < 4 ) { asked[n] = id; } n++; if( id == id0 ) { return &n0; } if( id == id1 ) { return &n1; } return 0; } };
extern "C" {
// reads an aggregate of entity references; the element type is entity A; instance 0 is an A, instance 1 is an A or (other1) a B.
// got[k] = which instance the k-th node holds (0 / 1, -1 null, -2 something else); returns the number of nodes
__attribute__((noinline)) int w_read_ref_aggr(const char *s, int addFileId, int id0, int id1, int other1, int *sev, long *pos, int *asked, int *nasked, int *got) {
    std::istringstream in(s);
    ErrorDescriptor e;
    static EntityDescriptor edA("Aent", (Schema *)0, LFalse, LFalse), edB("Bent", (Schema *)0, LFalse, LFalse);
    SDAI_Application_instance i0, i1;
    i0.eDesc = &edA; i1.eDesc = other1 ? &edB : &edA; i0.STEPfile_id = id0; i1.STEPfile_id = id1;
    VMgr m; m.id0 = id0; m.id1 = id1; m.n0.se = &i0; m.n1.se = &i1;
    EntityAggregate a;
    a.ReadValue(in, &e, &edA, &m, addFileId, 1, 1);
    *sev = (int)e.severity(); *pos = verif_pos(in); *nasked = m.n; for(int k = 0; k < 4; k++) asked[k] = m.asked[k];
    int cnt = 0;
    for(SingleLinkNode *n = a.GetHead(); n && cnt < 3; n = n->NextNode()) { SDAI_Application_instance *x = ((EntityNode *)n)->node; got[cnt++] = (x == &i0) ? 0 : ((x == &i1) ? 1 : ((x == S_ENTITY_NULL || x == 0) ? -1 : -2)); }
    int total = a.EntryCount();
    a.Empty();
    return total;
}
}
