/* C14-K1: the append offset.  For every maximum file id of the session (symbolic) the offset chosen by
 * STEPfile::SetFileIdIncrement is a multiple of 1000 strictly larger than every earlier id, and shifting any id of the
 * appended file by it neither overflows nor collides with an earlier id; an empty session gets offset 0. */
#define VERIF_INPUTS(S,A) S(int,mx) S(int,id)
#include "verif.h"
int w_incr(int maxFileId, int id, int *shifted);
#ifndef MAXBOUND
#define MAXBOUND 1000000000
#endif
void harness(void) {
    int incr, shifted;
    VERIF_BEGIN();
    ASSUME(mx >= -1 && mx <= MAXBOUND); ASSUME(id >= 1 && id <= MAXBOUND);
    incr = w_incr(mx, id, &shifted);
    OBS("mx=%d id=%d incr=%d shifted=%d", mx, id, incr, shifted);
    if(mx < 0) CHECK(incr == 0, "an empty session needs no offset");
    else {
        CHECK(incr % 1000 == 0, "the offset is a multiple of 1000");
        CHECK(incr > mx, "the offset is larger than every earlier id");
        CHECK(incr <= mx + 2099, "the offset is the next thousand but one (no needless gap)");
    }
    CHECK(shifted == id + incr && shifted > mx, "a shifted id lies above every earlier id");
    VERIF_END();
}
