from vrun import H
LEVEL_TEXT = ('Bounded model checking of the append-offset arithmetic (STEPfile::SetFileIdIncrement) and of the reference reader ReadEntityRef with a symbolic append offset, '
  'translated from the real C++ through LLVM IR; the instance manager is a harness object that records what it is asked.')
REF = dict(wrapper='harness/C14/wrap_ref.cc', repo_srcs=['src/clstepcore/sdaiApplication_instance.cc', 'src/clutils/Str.cc', 'src/clstepcore/sdai.cc', 'src/cldai/sdaiEnum.cc', 'src/cldai/sdaiString.cc',
       'src/clutils/gennode.cc', 'src/clutils/gennodelist.cc', 'src/clutils/gennodearray.cc', 'src/clstepcore/mgrnode.cc', 'src/clstepcore/mgrnodelist.cc', 'src/clstepcore/dispnode.cc', 'src/clstepcore/dispnodelist.cc',
       'src/cldai/sdaiDaObject.cc', 'src/cldai/sdaiObject.cc', 'src/clstepcore/STEPattributeList.cc', 'src/clstepcore/SingleLinkList.cc'],
    irc_extra_cc=['harness/common/errordesc_stub.cc'], native_lib=['src/clstepcore', 'src/clutils', 'src/cldai'],
    models=['lib/cmodels/cxx_rt.c', 'lib/cmodels/printf_null.c', 'lib/cmodels/sprintf_null.c'],
    stubs=['InstMgrBase/MgrNodeBase: harness subclasses (two registered ids, look-ups recorded)', 'vstd stream/string model', 'ErrorDescriptor messages dropped', 'sprintf of diagnostic text: empty string'],
    allow_undef=['_ZN13STEPattributeD1Ev', '_ZN13STEPattribute11ShallowCopyEPKS_'])
HARNESSES = [
  H('entity_ref', 'irc', 'harness/C14/h_ref.c', defs={'quick': {'NB': 5, 'VSTR_CAP': 8, 'VSTREAM_CAP': 8, 'VOSTREAM_CAP': 8, 'VCONT_CAP': 4}, 'thorough': {'NB': 7, 'VSTR_CAP': 10, 'VSTREAM_CAP': 10, 'VOSTREAM_CAP': 8, 'VCONT_CAP': 4}},
    unwind={'quick': 12, 'thorough': 14}, object_bits=10,
    bounds='every token of <= 5 (7) bytes over {# @ 0-9 x blank , )}; append offset 0..10^6, two registered ids 0..2*10^6 (symbolic)',
    samples=[{'tok': '#12,', 'add': 1000, 'id0': 12, 'id1': 1012}, {'tok': ' #7)', 'add': 0, 'id0': 7, 'id1': 9}, {'tok': '@3,', 'add': 5, 'id0': 8, 'id1': 1}, {'tok': '#x,', 'add': 0, 'id0': 1, 'id1': 2}, {'tok': ',', 'add': 0, 'id0': 1, 'id1': 2}, {'tok': '#5', 'add': 2, 'id0': 1, 'id1': 2}],
    out_of_claim='SELECT and complex-part reference paths, CreateInstance id shifting in pass 1, ids above 10^6', **REF),
  # aggr_refs (harness/C14/h_aggr.c + wrap_aggr.cc: EntityAggregate::ReadValue -> EntityNode::STEPread -> ReadEntityRef + EntityValidLevel with symbolic offset):
  # translation-validated (the oracle agrees with the real build on the samples) but the witness twin's symbolic execution did not finish in 15 min / 12 GB
  # (ostringstream/AttrTypeName text per element); NOT registered.
  H('file_id_increment', 'irc', 'harness/C14/h_incr.c', wrapper='harness/C14/wrap_incr.cc', repo_srcs=['src/cleditor/STEPfile.inline.cc', 'src/clstepcore/sdai.cc', 'src/cldai/sdaiEnum.cc', 'src/cldai/sdaiString.cc', 'src/clutils/Str.cc'], irc_extra_cc=['harness/common/errordesc_stub.cc'],
    native_lib=['src/clstepcore', 'src/clutils', 'src/cldai', 'src/cleditor'], models=['lib/cmodels/cxx_rt.c', 'lib/cmodels/printf_null.c'],
    defs={'VSTR_CAP': 8, 'VSTREAM_CAP': 8, 'VOSTREAM_CAP': 8, 'VCONT_CAP': 4}, unwind=4, object_bits=10,
    bounds='maximum file id -1..10^9 and appended id 1..10^9 symbolic (IEEE double arithmetic of ceil((max+99.0)/1000.0) decided by CBMC float encoding)',
    samples=[{'mx': -1, 'id': 5}, {'mx': 0, 'id': 1}, {'mx': 901, 'id': 7}, {'mx': 902, 'id': 7}, {'mx': 1000, 'id': 999}, {'mx': 123456, 'id': 123456}],
    stubs=['STEPfile and InstMgr objects are raw zeroed storage (only _instances->maxFileId and _fileIdIncr are touched)'],
    out_of_claim='ids above 10^9 (int overflow of the shifted id), threading of the offset through CreateInstance'),
]
JOBS = 6
MANIFEST = {
  'level_text': 'Bounded model checking of the two kernels that keep appended populations apart: (1) for every session maximum id up to 10^9 the append offset is a multiple of 1000 above every earlier id and shifting cannot collide; (2) for every reference token within the byte bound and every offset, ReadEntityRef looks up exactly the shifted id and returns the instance registered under it, never the bearer of the unshifted number, and reports unresolved references.',
  'level_note': 'Trusted: CBMC (incl. its IEEE float encoding), ir2c, vstd, harness instance-manager double. Outside the claim: that every reference-reading path (aggregates, SELECT, complex parts) passes the offset down, id shifting in CreateInstance, the written file after Read+Append.',
  'technique': 'CBMC bounded model checking of IR-translated STEPfile::SetFileIdIncrement (floating point) and ReadEntityRef with symbolic offset and ids',
  'design_ref': 'DESIGN.md section 2, C14',
}
