/* C14-K2 / C03 / C09 entity reference: ReadEntityRef(istream&, err, ",)", instances, addFileId) on every token of <= NB bytes
 * over { # @ digits x blank , ) }, symbolic addFileId (the append offset) and two registered instance ids.
 *  - a conforming reference #N (+blanks) followed by a delimiter/EOF looks up EXACTLY ONCE the id N + addFileId and returns the
 *    instance registered under that shifted id -- never the instance that happens to bear the unshifted number N;
 *  - a reference to an id nobody carries yields null and a WARNING (never a clean result);
 *  - non-conforming text yields null and an error; an empty value (delimiter first) yields null, nothing consumed;
 *  - the delimiter is never consumed.                                                                                        */
#ifndef NB
#define NB 5
#endif
#define VERIF_INPUTS(S,A) A(char,tok,NB+1) S(int,add) S(int,id0) S(int,id1)
#include "verif.h"
int w_read_ref(const char *s, int addFileId, int id0, int id1, int *sev, long *pos, int *asked0, int *nasked);
#define SEV_WARNING 0
#define SEV_USERMSG 2
#define SEV_NULL 3
static int isdig(char c) { return c >= '0' && c <= '9'; }
static int alpha(char c) { return isdig(c) || c == '#' || c == '@' || c == 'x' || c == ' ' || c == ',' || c == ')'; }
void harness(void) {
    int i, len = 0, p, q, e, n = 0, ndig = 0, sev, asked0 = -7, nasked = 0, r, at = 0; long pos;
    VERIF_BEGIN();
    tok[NB] = 0;
    for(i = 0; i < NB; i++) { if(tok[i] == 0) break; ASSUME(alpha(tok[i])); len++; }
    for(i = 0; i < NB; i++) if(i > len) ASSUME(tok[i] == 0);
    ASSUME(add >= 0 && add <= 1000000); ASSUME(id0 >= 0 && id0 <= 2000000 && id1 >= 0 && id1 <= 2000000 && id0 != id1);
    p = 0; while(p < len && tok[p] == ' ') p++;
    q = p;
    if(q < len && (tok[q] == '#' || tok[q] == '@')) { at = tok[q] == '@'; q++; while(q < len && tok[q] == ' ') q++; while(q < len && isdig(tok[q])) { n = n * 10 + (tok[q] - '0'); ndig++; q++; } }
    e = q; while(e < len && tok[e] == ' ') e++;
    r = w_read_ref(tok, add, id0, id1, &sev, &pos, &asked0, &nasked);
    OBS("tok=[%s] add=%d id0=%d id1=%d r=%d sev=%d pos=%ld asked0=%d n=%d", tok, add, id0, id1, r, sev, pos, asked0, nasked);
    if(ndig > 0 && (e == len || tok[e] == ',' || tok[e] == ')')) {
        int want = (n + add == id0) ? 0 : ((n + add == id1) ? 1 : -1);
        CHECK(nasked == 1 && asked0 == n + add, "the manager is asked exactly once, for the reference shifted by the append offset");
        CHECK(r == want, "the instance registered under the shifted id is returned, never the bearer of the unshifted number");
        if(want >= 0) CHECK(sev == (at ? SEV_WARNING : SEV_NULL), "a resolvable reference raises no error (@ for # is a warning)");
        else CHECK(sev <= SEV_WARNING, "a reference to a non-existent instance is never reported clean");
        CHECK(pos == e, "stream is left at the delimiter");
    } else {
        int empty = (p == len || tok[p] == ',' || tok[p] == ')');
        if(ndig > 0) {   /* #N followed by garbage: reported as an error; if an instance is handed out it is the right (shifted) one */
            int want = (n + add == id0) ? 0 : ((n + add == id1) ? 1 : -1);
            CHECK(r == want || r == -1, "a reference followed by garbage never yields a wrong instance");
            CHECK(nasked <= 1 && (nasked == 0 || asked0 == n + add), "only the shifted id is ever looked up");
        } else CHECK(r == -1, "no instance is returned for text that is not a reference");
        if(!empty) CHECK(sev < SEV_USERMSG, "non-conforming reference text is reported");
        else { CHECK(pos == p, "an empty value consumes nothing but blanks"); CHECK(nasked == 0, "no look-up for an empty value"); }
    }
    { int k, sn = 0; for(k = 0; k < NB; k++) if(k < pos && k < len && (tok[k] == ',' || tok[k] == ')')) sn = 1; CHECK(!sn, "the delimiter that follows is never consumed"); }
    VERIF_END();
}
