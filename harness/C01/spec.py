from vrun import H
LEVEL_TEXT = ('Bounded model checking of the value codecs and the aggregate writer behind the Part 21 round trip (IR-translated real code): what is written for an aggregate / a string / '
  'an enumeration equals what was read, element by element and byte for byte, for every value within the bounds.')
SRCS = ['src/clstepcore/STEPaggregate.cc', 'src/clstepcore/STEPaggrString.cc', 'src/clstepcore/STEPaggrInt.cc', 'src/clstepcore/SingleLinkList.cc', 'src/cldai/sdaiString.cc', 'src/clutils/Str.cc',
        'src/clstepcore/sdai.cc', 'src/cldai/sdaiEnum.cc', 'src/clstepcore/read_func.cc']
AG = dict(wrapper='harness/C01/wrap_aggr.cc', repo_srcs=SRCS, irc_extra_cc=['harness/common/errordesc_stub.cc'], native_lib=['src/clstepcore', 'src/clutils', 'src/cldai'],
          models=['lib/cmodels/cxx_rt.c', 'lib/cmodels/printf_null.c', 'lib/cmodels/sprintf_null.c'], object_bits=10,
          stubs=['vstd ostream/string model', 'operator new = calloc', 'ErrorDescriptor messages dropped'])
HARNESSES = [
  H('aggr_strings_n%d' % n, 'irc', 'harness/C01/h_aggr_str.c', defs={'NN': n, 'ELEN': 1, 'VSTR_CAP': 14, 'VSTREAM_CAP': 6, 'VOSTREAM_CAP': 14, 'VCONT_CAP': 4}, unwind=44,
    bounds='aggregate of %d string elements, each a symbolic literal of 0..1 byte over {p q} in exchange form' % n,
    samples=[{'a': 'p', 'b': 'q', 'c': 'pq'}, {'a': '', 'b': 'pp', 'c': 'q'}],
    out_of_claim='nested aggregates, SELECT/entity elements, reading the aggregate back (ReadValue), strings longer than 2 bytes', **AG) for n in (0, 1, 2)
] + [
  H('aggr_ints_n%d' % n, 'irc', 'harness/C01/h_aggr_int.c', tiers=('thorough',), timeout={'thorough': 1200}, defs={'NN': n, 'VSTR_CAP': 24, 'VSTREAM_CAP': 8, 'VOSTREAM_CAP': 28, 'VCONT_CAP': 4}, unwind=52,
    bounds='aggregate of %d integer elements, values -999..9999 symbolic' % n,
    samples=[{'v': 5}], out_of_claim='values beyond the range', **dict(AG, models=['lib/cmodels/cxx_rt.c', 'lib/cmodels/printf_null.c', 'lib/cmodels/sprintf_only.c'])) for n in (1,)
] + [
  H('aggr_ints_wide', 'irc', 'harness/C01/h_aggr_int_wide.c', defs={'VSTR_CAP': 28, 'VSTREAM_CAP': 8, 'VOSTREAM_CAP': 32, 'VCONT_CAP': 4}, unwind=52, timeout={'quick': 900, 'thorough': 1800},
    bounds='aggregate of one integer element of 10..18 symbolic decimal digits with optional sign',
    samples=[dict({'dg[%d]' % i: d for i, d in enumerate([1, 2, 3, 4, 5, 6, 7, 8, 9, 0, 1, 2, 0, 0, 0, 0, 0, 0])}, nd=12, neg=0), dict({'dg[%d]' % i: d for i, d in enumerate([9, 9, 9, 9, 9, 9, 9, 9, 9, 9, 9, 0, 0, 0, 0, 0, 0, 0])}, nd=11, neg=1)], out_of_claim='several long elements, 19-digit values',
    **dict(AG, models=['lib/cmodels/cxx_rt.c', 'lib/cmodels/printf_null.c'], stubs=AG['stubs'] + ['sprintf/snprintf("%ld"): harness stubs that write the digits the value was built from (value checked), snprintf truncating to its size'])),
] + [
  H('aggr_ints_unset_n%d' % n, 'irc', 'harness/C01/h_aggr_int_unset.c', timeout={'quick': 900, 'thorough': 1800}, defs={'NN': n, 'VSTR_CAP': 24, 'VSTREAM_CAP': 8, 'VOSTREAM_CAP': 28, 'VCONT_CAP': 4}, unwind=52,
    bounds='aggregate of %d integer elements, each a symbolic one-digit value or unset (symbolic mask)' % n,
    samples=[{'d': 5, 'unset': 2}, {'d': 7, 'unset': 0}], out_of_claim='multi-digit values (aggr_ints_n1), reading back', **dict(AG, models=['lib/cmodels/cxx_rt.c', 'lib/cmodels/printf_null.c', 'lib/cmodels/sprintf_digit.c'], stubs=AG['stubs'] + ['sprintf: "%ld" of a one-digit value only (sprintf_digit.c); other values cut the path'])) for n in (2, 3)
]
JOBS = 8
MANIFEST = {
  'level_text': 'Bounded model checking of the aggregate writer of the Part 21 round trip: for aggregates of 0..3 symbolic string / integer elements (integer elements set or unset) STEPaggregate::STEPwrite and asStr emit "(" e1 "," ... ")" with every element exactly once, in order and unmodified (string elements byte for byte; an unset integer element shows no value, in particular not its neighbour\'s); together with the C09 string/enumeration/number harnesses (write(read(t)) == t per literal kind) this covers the value codecs of the round trip. Kernel level only.',
  'level_note': 'Trusted: CBMC, ir2c, vstd. Outside: the STEPfile two-pass driver, header section, generated entity classes, SELECT, complex instances, comments, reals (decimal conversion uninterpreted), reading aggregates back (ReadValue), nested aggregates.',
  'technique': 'CBMC bounded model checking of IR-translated STEPaggregate/StringNode/IntNode writers with symbolic elements',
  'design_ref': 'DESIGN.md section 2, C01',
}
