/* C01-K7: STEPaggregate::STEPwrite over IntNode elements of which an arbitrary subset is UNSET (S_INT_NULL): NN elements,
 * each a symbolic one-digit value or unset (symbolic mask).  Assert: the text is "(" f1 "," ... "," fn ")" where the field of
 * a set element is exactly its digit and the field of an unset element carries no value of its own or of a neighbour
 * (it is empty or "$") -- the writer reuses one scratch string for all nodes, so a stale field is the realistic failure. */
#ifndef NN
#define NN 3
#endif
#define VERIF_INPUTS(S,A) A(unsigned char,d,3) S(unsigned char,unset)
#include "verif.h"
int w_write_ints_unset(int n, int unset, long v0, long v1, long v2, char *out1, int cap);
void harness(void) {
    char o1[24]; int i, p = 0, ok = 1;
    VERIF_BEGIN();
    for(i = 0; i < 3; i++) ASSUME(d[i] <= 9);
    ASSUME(unset < (1 << NN));
    w_write_ints_unset(NN, unset, d[0], d[1], d[2], o1, 24);
    OBS("unset=%d d=%d%d%d out=[%s]", unset, d[0], d[1], d[2], o1);
    if(o1[p] != '(') ok = 0; else p++;
    for(i = 0; i < NN; i++) {
        if(i) { if(o1[p] != ',') ok = 0; else p++; }
        if((unset >> i) & 1) { if(o1[p] == '$') p++; }
        else { if(o1[p] != (char)('0' + d[i])) ok = 0; else p++; }
    }
    if(o1[p] != ')' || o1[p + 1] != 0) ok = 0;
    CHECK(ok, "integer aggregate with unset elements: every set element once, in place; an unset element shows no value");
    VERIF_END();
}
