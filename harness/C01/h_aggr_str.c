/* C01-K6: STEPaggregate::STEPwrite(ostream&) / asStr() over StringNode elements (STEPaggregate.cc, STEPaggrString.cc).
 * NN elements, each a symbolic string literal 'x' / 'xy' in exchange form.  Assert: the written aggregate is
 * "(" e1 "," e2 ... ")" with ei exactly the i-th element -- nothing dropped, duplicated or merged (the element writers
 * share one scratch string); an empty aggregate is written "()". */
#ifndef NN
#define NN 2
#endif
#ifndef ELEN
#define ELEN 1
#endif
#define VERIF_INPUTS(S,A) A(char,a,3) A(char,b,3) A(char,c,3)
#include "verif.h"
int w_write_strings(int n, const char *e0, const char *e1, const char *e2, char *out1, char *out2, int cap);
static char e[3][6]; static char want[40]; static int wn;
static void mk(char *d, const char *s) { int i = 0, j = 0; d[j++] = '\''; for(i = 0; i < ELEN; i++) if(s[i]) d[j++] = s[i]; d[j++] = '\''; d[j] = 0; }
static void app(const char *s) { int i; for(i = 0; s[i]; i++) want[wn++] = s[i]; want[wn] = 0; }
void harness(void) {
    char o1[40], o2[40]; int i, r, same1 = 1, same2 = 1;
    VERIF_BEGIN();
    a[2] = b[2] = c[2] = 0;
    for(i = 0; i < 2; i++) { ASSUME(a[i] == 0 || a[i] == 'p' || a[i] == 'q'); ASSUME(b[i] == 0 || b[i] == 'p' || b[i] == 'q'); ASSUME(c[i] == 0 || c[i] == 'p' || c[i] == 'q'); }
    ASSUME(a[0] || !a[1]); ASSUME(b[0] || !b[1]); ASSUME(c[0] || !c[1]);
    mk(e[0], a); mk(e[1], b); mk(e[2], c);
    wn = 0;
    if(NN == 0) app("$");   /* an aggregate that never received an element is unset */
    else { app("("); for(i = 0; i < NN; i++) { if(i) app(","); app(e[i]); } app(")"); }
    r = w_write_strings(NN, e[0], e[1], e[2], o1, o2, 40);
    OBS("n=%d out1=[%s] out2=[%s] want=[%s]", NN, o1, o2, want);
    CHECK(r >= 0, "model string capacity suffices");
    for(i = 0; i < 40; i++) if(i <= wn) { if(o1[i] != want[i]) same1 = 0; if(NN > 0 && o2[i] != want[i]) same2 = 0; }
    if(NN == 0 && o2[0] != 0) same2 = 0;
    CHECK(same1, "STEPwrite(ostream) writes ( e1 , e2 ... ) with every element exactly once, in order");
    CHECK(same2, "asStr() gives the same text");
    VERIF_END();
}
