/* C01-K8: STEPaggregate::STEPwrite over ONE IntNode holding a LONG integer: the value is built from ND symbolic decimal digits
 * (10..18 digits, optional sign), so the expected text is known without any division.  Decimal formatting is not the subject:
 * sprintf/snprintf("%ld") are harness stubs that write exactly those digits (after checking that the value handed to them IS the
 * value the digits denote) -- snprintf truncates to its size argument as the real one does.  Assert: the text written for the
 * aggregate is "(" + all digits + ")": nothing cut, nothing added.  Complements aggr_ints_n1 (values -999..9999, real formatting model). */
#define ND 18
#define VERIF_INPUTS(S,A) A(unsigned char,dg,ND) S(unsigned char,nd) S(unsigned char,neg)
#include "verif.h"
#include <stdarg.h>
#include <stddef.h>
int w_write_ints(int n, long v0, long v1, long v2, char *out1, int cap);
static char txt[ND + 2]; static int tlen; static long hv;
#ifndef NATIVE
static int put_digits(char *buf, size_t cap, long v) { int i; __CPROVER_assert(v == hv, "stub: the formatted value is the harness value"); for(i = 0; i < ND + 1; i++) if(i < tlen && (size_t)i + 1 < cap) buf[i] = txt[i]; buf[(size_t)tlen + 1 < cap ? (size_t)tlen : cap - 1] = 0; return tlen; }
int sprintf(char *buf, const char *f, ...) { va_list ap; long v; __CPROVER_assert(f[0] == '%' && f[1] == 'l' && f[2] == 'd' && f[3] == 0, "stub: only \"%ld\" is modelled"); va_start(ap, f); v = va_arg(ap, long); va_end(ap); return put_digits(buf, (size_t)1 << 30, v); }
int snprintf(char *buf, size_t cap, const char *f, ...) { va_list ap; long v; __CPROVER_assert(f[0] == '%' && f[1] == 'l' && f[2] == 'd' && f[3] == 0, "stub: only \"%ld\" is modelled"); va_start(ap, f); v = va_arg(ap, long); va_end(ap); return put_digits(buf, cap, v); }
#endif
void harness(void) {
    char o1[ND + 6]; int i, same = 1; unsigned long acc = 0;
    VERIF_BEGIN();
    ASSUME(nd >= 10 && nd <= ND); ASSUME(dg[0] >= 1 && dg[0] <= 9);
    tlen = 0; if(neg & 1) txt[tlen++] = '-';
    for(i = 0; i < ND; i++) if(i < nd) { ASSUME(dg[i] <= 9); acc = (acc << 3) + (acc << 1) + dg[i]; txt[tlen++] = (char)('0' + dg[i]); }
    txt[tlen] = 0;
    hv = (neg & 1) ? -(long)acc : (long)acc;
    w_write_ints(1, hv, 0, 0, o1, ND + 6);
    OBS("v=%ld out=[%s] digits=[%s]", hv, o1, txt);
    if(o1[0] != '(') same = 0;
    for(i = 0; i < ND + 2; i++) if(i < tlen && o1[1 + i] != txt[i]) same = 0;
    if(o1[1 + tlen] != ')' || o1[2 + tlen] != 0) same = 0;
    CHECK(same, "a long integer element is written with all its digits");
    VERIF_END();
}
