/* C01-K6: STEPaggregate::STEPwrite over IntNode elements: NN symbolic integers; output "(" v1 "," v2 ... ")" in decimal. */
#ifndef NN
#define NN 2
#endif
#define VERIF_INPUTS(S,A) A(short,v,3)
#include "verif.h"
int w_write_ints(int n, long v0, long v1, long v2, char *out1, int cap);
static char want[48]; static int wn;
static void appc(char ch) { want[wn++] = ch; want[wn] = 0; }
static void appnum(int x) { char t[8]; int n = 0, k; unsigned u = x < 0 ? (unsigned)(-x) : (unsigned)x; if(x < 0) appc('-'); for(k = 0; k < 5; k++) { if(u || k == 0) { t[n++] = (char)('0' + u % 10u); u /= 10u; } } for(k = 4; k >= 0; k--) if(k < n) appc(t[k]); }
void harness(void) {
    char o1[48]; int i, same = 1;
    VERIF_BEGIN();
    for(i = 0; i < 3; i++) ASSUME(v[i] >= -999 && v[i] <= 9999);
    wn = 0; appc('(');
    for(i = 0; i < NN; i++) { if(i) appc(','); appnum(v[i]); }
    appc(')');
    w_write_ints(NN, v[0], v[1], v[2], o1, 48);
    OBS("out=[%s] want=[%s]", o1, want);
    for(i = 0; i < 48; i++) if(i <= wn && o1[i] != want[i]) same = 0;
    CHECK(same, "integer aggregate is written ( v1 , v2 ... ) with exact values in order");
    VERIF_END();
}
