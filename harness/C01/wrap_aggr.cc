// extern "C" entry points over STEPaggregate::STEPwrite / asStr with StringNode and IntNode elements
#include "clstepcore/sdai.h"
#include "clstepcore/STEPaggregate.h"
#include "clstepcore/STEPaggrString.h"
#include "clstepcore/STEPaggrInt.h"
#include <sstream>
#include <string.h>
#include "../common/stdstreams.h"
static void put(const std::string &s, char *out, int cap) { int i = 0; for(; i < (int)s.size() && i < cap - 1; i++) out[i] = s[i]; out[i] = 0; }
extern "C" {
// n string elements (exchange form, quotes included) -> text written by STEPwrite(ostream&) and by asStr()
__attribute__((noinline)) int w_write_strings(int n, const char *e0, const char *e1, const char *e2, char *out1, char *out2, int cap) {
    StringAggregate a; const char *el[3] = { e0, e1, e2 };
    for(int i = 0; i < n && i < 3; i++) a.AddNode(new StringNode(el[i]));
    std::ostringstream o; a.STEPwrite(o);
    std::string s1 = o.str(), s2; a.asStr(s2);
    put(s1, out1, cap); put(s2, out2, cap);
#ifdef VSTD
    return (s1.ovf || s2.ovf) ? -1 : (int)s1.size();
#else
    return (int)s1.size();
#endif
}
// like w_write_ints, but element i is left unset (S_INT_NULL) when bit i of `unset` is set
__attribute__((noinline)) int w_write_ints_unset(int n, int unset, long v0, long v1, long v2, char *out1, int cap) {
    IntAggregate a; long el[3] = { v0, v1, v2 };
    for(int i = 0; i < n && i < 3; i++) a.AddNode(new IntNode((unset >> i) & 1 ? (SDAI_Integer)S_INT_NULL : (SDAI_Integer)el[i]));
    std::ostringstream o; a.STEPwrite(o);
    std::string s1 = o.str(); put(s1, out1, cap);
    return (int)s1.size();
}
__attribute__((noinline)) int w_write_ints(int n, long v0, long v1, long v2, char *out1, int cap) {
    IntAggregate a; long el[3] = { v0, v1, v2 };
    for(int i = 0; i < n && i < 3; i++) a.AddNode(new IntNode(el[i]));
    std::ostringstream o; a.STEPwrite(o);
    std::string s1 = o.str(); put(s1, out1, cap);
    return (int)s1.size();
}
}
