/* C02 (dictionary mirrors the schema) + C12 (determinism): AGGRprint_init / AGGRprint_bound of src/exp2cxx/classes_type.c
 * on an aggregate type whose schema-level attributes are symbolic: lower bound (integer literal), upper bound (integer
 * literal | "?" | non-literal reference | absent), UNIQUE and OPTIONAL element flags.
 * C02 assert: the emitted initialiser contains SetBound1( <lower> ), SetBound2( <upper> ) with the declared values,
 *             UniqueElements(LTrue) iff UNIQUE, OptionalElements(LTrue) iff OPTIONAL -- nothing flipped, nothing invented.
 * C12 assert: a second copy of the same type at different addresses (pointer payloads differ) yields identical text. */
#define VERIF_INPUTS(S,A) S(unsigned char,up) S(unsigned char,upkind) S(unsigned long,a1) S(unsigned long,a2) S(unsigned char,rt)
#include "verif.h"
#include <stdio.h>
#include <string.h>
#include <stdlib.h>
#include <limits.h>
#include "express/expr.h"
#include "express/type.h"
extern void AGGRprint_bound( FILE * header, FILE * impl, const char * var_name, const char * aggr_name, const char * cname, Expression bound, int boundNr );
char *EXPRto_string(Expression e) { char *s = malloc(8); (void)e; s[0] = 'm'; s[1] = 'x'; s[2] = 0; return s; }
const char *path2str(const char *p) { return p; }
const char *ClassName(const char *n) { (void)n; return "SdaiCls"; }
static struct Scope_ ty_funcall, ty_integer, ty_ident;
struct Scope_ *Type_Funcall = &ty_funcall, *Type_Integer = &ty_integer, *Type_Identifier = &ty_ident;
/* structured capture of the emitted lines: which statement (by its format literal) with which arguments */
#include <stdarg.h>
enum { EV_BOUND_INT = 1, EV_BOUND_STR, EV_BOUND_ACC, EV_UNIQUE, EV_OPTIONAL, EV_OTHER };
struct ev { int kind, nr, val; char txt[4]; };
static struct ev evs[2][8]; static int nev[2], run_no;
static int has(const char *f, const char *needle) { int i, j; for(i = 0; f[i]; i++) { for(j = 0; needle[j] && f[i + j] == needle[j]; j++) ; if(!needle[j]) return 1; } return 0; }
#ifndef NATIVE_NOFPRINTF
int fprintf(FILE *fp, const char *f, ...) {
    va_list ap; struct ev *e; const char *vn; (void)fp; (void)vn;
    if(nev[run_no] >= 8) return 0;
    e = &evs[run_no][nev[run_no]++]; e->kind = EV_OTHER; e->nr = e->val = 0; e->txt[0] = 0;
    va_start(ap, f);
    if(has(f, "SetBound%d( %d )")) { e->kind = EV_BOUND_INT; vn = va_arg(ap, const char *); e->nr = va_arg(ap, int); e->val = va_arg(ap, int); }
    else if(has(f, "SetBound%dFromExpressFuncall")) { const char *s; e->kind = EV_BOUND_STR; vn = va_arg(ap, const char *); e->nr = va_arg(ap, int); s = va_arg(ap, const char *); e->txt[0] = s[0]; e->txt[1] = s[0] ? s[1] : 0; e->txt[2] = 0; }
    else if(has(f, "FromMemberAccessor")) { e->kind = EV_BOUND_ACC; vn = va_arg(ap, const char *); e->nr = va_arg(ap, int); }
    else if(has(f, "UniqueElements(LTrue)")) e->kind = EV_UNIQUE;
    else if(has(f, "OptionalElements(LTrue)")) e->kind = EV_OPTIONAL;
    va_end(ap);
    return 0;
}
#endif
static int count(int r, int kind, int nr) { int i, c = 0; for(i = 0; i < 8; i++) if(i < nev[r] && evs[r][i].kind == kind && (nr == 0 || evs[r][i].nr == nr)) c++; return c; }
static struct ev *find(int r, int kind, int nr) { int i; for(i = 0; i < 8; i++) if(i < nev[r] && evs[r][i].kind == kind && evs[r][i].nr == nr) return &evs[r][i]; return 0; }
void harness(void) {
    static struct Expression_ e1, e2; int i, same = 1; struct ev *e; int nr = BOUNDNR;
    VERIF_BEGIN();
    ASSUME(upkind < 3); ASSUME(up <= 99);
    e1.symbol.resolved = e2.symbol.resolved = 1;
    if(upkind == 0) { e1.type = e2.type = Type_Integer; e1.u.integer = e2.u.integer = up; }
    else if(upkind == 1) { e1.type = e2.type = Type_Integer; e1.u.integer = e2.u.integer = INT_MAX; }             /* "?" */
    else { struct Scope_ *r = (rt % 3 == 0) ? 0 : ((rt % 3 == 1) ? Type_Integer : Type_Identifier);
           e1.type = e2.type = Type_Identifier; e1.u.entity = (void *)a1; e2.u.entity = (void *)a2; e1.return_type = e2.return_type = r; }   /* CONSTANT reference: payload is an address; static result type symbolic */
    run_no = 0; AGGRprint_bound(stdout, stderr, "t_0", "agg", "SdaiCls", &e1, nr);
    CHECK(nev[0] == 1, "exactly one initialiser statement is emitted for a resolved bound");
    if(upkind == 0) { e = find(0, EV_BOUND_INT, nr); CHECK(e && e->val == up, "literal bound is emitted with its declared value under the right bound number"); }
    if(upkind == 1) { e = find(0, EV_BOUND_INT, nr); CHECK(e && e->val == INT_MAX, "indeterminate bound is emitted as the largest integer"); }
    if(upkind == 2) { e = find(0, EV_BOUND_STR, nr); CHECK(e && e->txt[0] == 'm' && e->txt[1] == 'x' && count(0, EV_BOUND_INT, 0) == 0, "non-literal bound is emitted as its expression text, never as a number"); }
    run_no = 1; AGGRprint_bound(stdout, stderr, "t_0", "agg", "SdaiCls", &e2, nr);
    if(nev[0] != nev[1]) same = 0;
    for(i = 0; i < 8; i++) if(i < nev[0]) { if(evs[0][i].kind != evs[1][i].kind || evs[0][i].nr != evs[1][i].nr || evs[0][i].val != evs[1][i].val || evs[0][i].txt[0] != evs[1][i].txt[0]) same = 0; }
    CHECK(same, "same schema content at different addresses gives identical output");
    OBS("n=%d kind=%d nr=%d val=%d", nev[0], evs[0][0].kind, evs[0][0].nr, evs[0][0].val);
    VERIF_END();
}
