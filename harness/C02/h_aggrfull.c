/* C02 (+C12): AGGRprint_init of src/exp2cxx/classes_type.c on an aggregate type whose schema-level attributes are symbolic:
 * lower bound (integer literal), upper bound (integer literal | "?" | non-literal reference | absent), UNIQUE and OPTIONAL
 * element flags.  The Type is built by hand (struct Scope_/TypeHead_/TypeBody_); the goto-cc build uses
 * the shadow copy of the express headers (Scope_.u as a struct) because CBMC's expression simplifier mis-resolves
 * p->u.type->body for a non-first union member (measured, DESIGN.md E1 pitfalls).
 * C02 assert: SetBound1( lower ), SetBound2( upper ) carry the declared values, non-literal bounds are emitted as expression
 *             text, UniqueElements(LTrue) iff UNIQUE, OptionalElements(LTrue) iff OPTIONAL -- nothing flipped or invented.
 * C12 assert: a second copy of the same type at different addresses yields the same statements. */
#define VERIF_INPUTS(S,A) S(unsigned char,lo) S(unsigned char,up) S(unsigned char,upkind) S(unsigned char,uniq) S(unsigned char,opt) S(unsigned long,a1) S(unsigned long,a2) S(unsigned char,rt)
#include "verif.h"
#include <stdio.h>
#include <string.h>
#include <stdlib.h>
#include <limits.h>
#include <stdarg.h>
#include "express/expr.h"
#include "express/type.h"
extern void AGGRprint_init( FILE * header, FILE * impl, const Type t, const char * var_name, const char * aggr_name );
char *EXPRto_string(Expression e) { char *s = malloc(8); (void)e; s[0] = 'm'; s[1] = 'x'; s[2] = 0; return s; }
const char *path2str(const char *p) { return p; }
const char *ClassName(const char *n) { (void)n; return "SdaiCls"; }
static struct Scope_ ty_funcall, ty_integer, ty_ident;
struct Scope_ *Type_Funcall = &ty_funcall, *Type_Integer = &ty_integer, *Type_Identifier = &ty_ident;
struct aggr { struct Scope_ t; struct TypeHead_ h; struct TypeBody_ b; struct Expression_ elo, eup; };
static void build(struct aggr *g, unsigned long addr) {
    g->t.u.type = &g->h; g->h.head = 0; g->h.body = &g->b; g->t.symbol.name = "agg";
    g->b.flags.unique = uniq & 1; g->b.flags.optional = opt & 1;
    g->elo.symbol.resolved = 1; g->elo.type = Type_Integer; g->elo.u.integer = lo; g->b.lower = &g->elo;
    g->eup.symbol.resolved = 1;
    if(upkind == 0) { g->eup.type = Type_Integer; g->eup.u.integer = up; g->b.upper = &g->eup; }
    else if(upkind == 1) { g->eup.type = Type_Integer; g->eup.u.integer = INT_MAX; g->b.upper = &g->eup; }     /* "?" */
    else if(upkind == 2) { g->eup.type = Type_Identifier; g->eup.u.entity = (void *)addr; g->eup.return_type = (rt % 3 == 0) ? 0 : ((rt % 3 == 1) ? Type_Integer : Type_Identifier); g->b.upper = &g->eup; } /* CONSTANT reference */
    else g->b.upper = 0;
}
enum { EV_BOUND_INT = 1, EV_BOUND_STR, EV_BOUND_ACC, EV_UNIQUE, EV_OPTIONAL, EV_OTHER };
struct ev { int kind, nr, val; char txt[4]; };
static struct ev evs[2][8]; static int nev[2], run_no;
static int has(const char *f, const char *needle) { int i, j; for(i = 0; f[i]; i++) { for(j = 0; needle[j] && f[i + j] == needle[j]; j++) ; if(!needle[j]) return 1; } return 0; }
int fprintf(FILE *fp, const char *f, ...) {
    va_list ap; struct ev *e; const char *vn; (void)fp; (void)vn;
    if(nev[run_no] >= 8) return 0;
    e = &evs[run_no][nev[run_no]++]; e->kind = EV_OTHER; e->nr = e->val = 0; e->txt[0] = 0;
    va_start(ap, f);
    if(has(f, "SetBound%d( %d )")) { e->kind = EV_BOUND_INT; vn = va_arg(ap, const char *); e->nr = va_arg(ap, int); e->val = va_arg(ap, int); }
    else if(has(f, "SetBound%dFromExpressFuncall")) { const char *s; e->kind = EV_BOUND_STR; vn = va_arg(ap, const char *); e->nr = va_arg(ap, int); s = va_arg(ap, const char *); e->txt[0] = s[0]; e->txt[1] = s[0] ? s[1] : 0; e->txt[2] = 0; }
    else if(has(f, "FromMemberAccessor")) { e->kind = EV_BOUND_ACC; vn = va_arg(ap, const char *); e->nr = va_arg(ap, int); }
    else if(has(f, "UniqueElements(LTrue)")) e->kind = EV_UNIQUE;
    else if(has(f, "OptionalElements(LTrue)")) e->kind = EV_OPTIONAL;
    va_end(ap);
    return 0;
}
static int count(int r, int kind, int nr) { int i, c = 0; for(i = 0; i < 8; i++) if(i < nev[r] && evs[r][i].kind == kind && (nr == 0 || evs[r][i].nr == nr)) c++; return c; }
static struct ev *find(int r, int kind, int nr) { int i; for(i = 0; i < 8; i++) if(i < nev[r] && evs[r][i].kind == kind && evs[r][i].nr == nr) return &evs[r][i]; return 0; }
void harness(void) {
    static struct aggr g1, g2; int i, same = 1; struct ev *e;
    VERIF_BEGIN();
    ASSUME(upkind < 4); ASSUME(lo <= 99 && up <= 99);
    build(&g1, a1); build(&g2, a2);
    CHECK(TYPEget_body(&g1.t)->lower == &g1.elo && TYPEget_head(&g1.t) == 0, "harness self-check: the hand-built type reads back through the TYPEget_* macros");
    run_no = 0; AGGRprint_init(stdout, stderr, &g1.t, "t_0", "agg");
    e = find(0, EV_BOUND_INT, 1); CHECK(e && e->val == lo && count(0, EV_BOUND_INT, 1) == 1, "lower bound is emitted once with its declared value");
    if(upkind == 0) { e = find(0, EV_BOUND_INT, 2); CHECK(e && e->val == up, "upper bound is emitted with its declared value"); }
    if(upkind == 1) { e = find(0, EV_BOUND_INT, 2); CHECK(e && e->val == INT_MAX, "indeterminate upper bound is emitted as the largest integer"); }
    if(upkind == 2) { e = find(0, EV_BOUND_STR, 2); CHECK(e && e->txt[0] == 'm' && e->txt[1] == 'x' && count(0, EV_BOUND_INT, 2) == 0, "non-literal upper bound is emitted as its expression text, never as a number"); }
    if(upkind == 3) CHECK(count(0, EV_BOUND_INT, 2) + count(0, EV_BOUND_STR, 2) + count(0, EV_BOUND_ACC, 2) == 0, "no upper bound is invented");
    CHECK(count(0, EV_UNIQUE, 0) == (uniq & 1), "UNIQUE flag is emitted iff declared");
    CHECK(count(0, EV_OPTIONAL, 0) == (opt & 1), "OPTIONAL flag is emitted iff declared");
    run_no = 1; AGGRprint_init(stdout, stderr, &g2.t, "t_0", "agg");
    if(nev[0] != nev[1]) same = 0;
    for(i = 0; i < 8; i++) if(i < nev[0]) { if(evs[0][i].kind != evs[1][i].kind || evs[0][i].nr != evs[1][i].nr || evs[0][i].val != evs[1][i].val || evs[0][i].txt[0] != evs[1][i].txt[0]) same = 0; }
    CHECK(same, "same schema content at different addresses gives identical output (statement by statement)");
    OBS("n=%d", nev[0]);
    VERIF_END();
}
