/* C02-K3: ENTITYincode_print of src/exp2cxx/classes_entity.c -- the code that registers an entity and its attribute descriptors
 * in the run-time dictionary -- on a hand-built entity with ONE attribute whose schema-level properties are symbolic:
 * OPTIONAL, UNIQUE, derived (initializer present), inverse (inverse_attribute present), redeclared (name SELF\sup.attr),
 * ABSTRACT on the entity; the attribute's type shape is forked per query (ATYPE 0: defined type, 1: entity, 2: builtin, 3: anonymous aggregate, whose
 * type-descriptor chain -- print_typechain -- is stubbed).
 * fprintf is a structured capture (statement recognised by its format literal, string arguments recorded by first bytes).
 * Assert: exactly one attribute descriptor is created, of the class that matches the attribute kind (Inverse_attribute /
 * Derived_attribute / AttrDescriptor), with the declared name, optionality LTrue iff OPTIONAL, uniqueness LTrue iff UNIQUE, the
 * AttrType that matches (Deriving / Redefining / Explicit), added to the entity's explicit or inverse list accordingly; the
 * initializer is recorded iff derived, the inverted attribute iff inverse; the entity is registered once, with the abstract
 * statement iff ABSTRACT and AddEntityWInverse iff it has an inverse attribute.
 * goto-cc uses the shadow express headers (Scope_.u as a struct), see DESIGN.md. */
#ifndef ATYPE
#define ATYPE 0
#endif
#define VERIF_INPUTS(S,A) S(unsigned char,opt) S(unsigned char,uniq) S(unsigned char,derived) S(unsigned char,inverse) S(unsigned char,redecl) S(unsigned char,abstr)
#include "verif.h"
#include <stdio.h>
#include <string.h>
#include <stdlib.h>
#include <stdarg.h>
#include "classes.h"
#include "classes_entity.h"
struct ty { struct Scope_ t; struct TypeHead_ h; struct TypeBody_ b; };
static struct Scope_ sch, ent, ent2; static struct Schema_ schbody; static struct Entity_ entbody, ent2body;
static struct ty aty, basety;
static struct Variable_ v, vinv; static struct Expression_ e_name, e_init, e_invname;
static struct Linked_List_ empty, attrs; static struct Link_ emark, amark, alink;
char *EXPRto_string(Expression e) { const char *s = (e == &e_name) ? ((redecl & 1) ? "SELF\\sup.attr" : "attr") : "init"; char *r = malloc(16); int i; for(i = 0; s[i]; i++) r[i] = s[i]; r[i] = 0; return r; }
#if ATYPE == 3
void print_typechain(FILE *header, FILE *impl, const Type t, char *buf, Schema schema, const char *type_name) { (void)header; (void)impl; (void)t; (void)schema; (void)type_name; buf[0] = 't'; buf[1] = '_'; buf[2] = '0'; buf[3] = 0; }   /* emission of the anonymous aggregate's own descriptors: not the subject here */
#endif
char *format_for_stringout(char *orig, char *ret) { (void)orig; ret[0] = 'f'; ret[1] = 0; return ret; }
enum { EV_NEW = 1, EV_TYPEOPT, EV_UNIQ, EV_ADD, EV_INIT, EV_INVID, EV_ABSTRACT, EV_REG, EV_WINV, EV_OTHER };
struct ev { int kind; char cls, letter, optc, uniqc, atype, addk, n0, n1, n2, n3, n4; };   /* first bytes of a name in scalar fields (byte copies into an array member of a struct array element are mis-evaluated by CBMC 6.11) */
static struct ev evs[16]; static int nev;
static int has(const char *f, const char *needle) { int i, j; for(i = 0; f[i]; i++) { for(j = 0; needle[j] && f[i + j] == needle[j]; j++) ; if(!needle[j]) return 1; } return 0; }
#define cp(E, s) do { (E)->n0 = (s)[0]; (E)->n1 = (E)->n0 ? (s)[1] : 0; (E)->n2 = (E)->n1 ? (s)[2] : 0; (E)->n3 = (E)->n2 ? (s)[3] : 0; (E)->n4 = (E)->n3 ? (s)[4] : 0; } while(0)
static char attrtype(const char *s) { return s[0] ? s[11] : 0; }   /* ", AttrType_Deriving" -> 'D', Redefining -> 'R', Explicit -> 'E', "" -> 0 */
int fprintf(FILE *fp, const char *f, ...) {
    va_list ap; struct ev *e; const char *s; (void)fp;
    if(nev >= 16) return 0;
    e = &evs[nev++]; e->kind = EV_OTHER; e->cls = e->letter = e->optc = e->uniqc = e->atype = e->addk = e->n0 = e->n1 = e->n2 = e->n3 = e->n4 = 0;
    va_start(ap, f);
    if(has(f, "new %s(\"%s\",%s::%s%s,")) {            /* attribute of a defined type: one statement */
        e->kind = EV_NEW; (void)va_arg(ap, const char *); (void)va_arg(ap, const char *); (void)va_arg(ap, int); s = va_arg(ap, const char *); e->letter = s[0]; (void)va_arg(ap, const char *);
        s = va_arg(ap, const char *); e->cls = s[0]; s = va_arg(ap, const char *); cp(e, s); (void)va_arg(ap, const char *); (void)va_arg(ap, const char *); (void)va_arg(ap, const char *);
        s = va_arg(ap, const char *); e->optc = s[1]; s = va_arg(ap, const char *); e->uniqc = s[1]; s = va_arg(ap, const char *); e->atype = attrtype(s);
    } else if(has(f, "new %s(\"%s\",%s%s,")) {          /* attribute of a builtin type */
        e->kind = EV_NEW; (void)va_arg(ap, const char *); (void)va_arg(ap, const char *); (void)va_arg(ap, int); s = va_arg(ap, const char *); e->letter = s[0]; (void)va_arg(ap, const char *);
        s = va_arg(ap, const char *); e->cls = s[0]; s = va_arg(ap, const char *); cp(e, s); (void)va_arg(ap, const char *); (void)va_arg(ap, const char *);
        s = va_arg(ap, const char *); e->optc = s[1]; s = va_arg(ap, const char *); e->uniqc = s[1]; s = va_arg(ap, const char *); e->atype = attrtype(s);
    } else if(has(f, "new %s(\"%s\",%s,%s,%s%s,")) {      /* attribute of an anonymous aggregate type */
        e->kind = EV_NEW; (void)va_arg(ap, const char *); (void)va_arg(ap, const char *); (void)va_arg(ap, int); s = va_arg(ap, const char *); e->letter = s[0]; (void)va_arg(ap, const char *);
        s = va_arg(ap, const char *); e->cls = s[0]; s = va_arg(ap, const char *); cp(e, s); (void)va_arg(ap, const char *);
        s = va_arg(ap, const char *); e->optc = s[1]; s = va_arg(ap, const char *); e->uniqc = s[1]; s = va_arg(ap, const char *); e->atype = attrtype(s);
    } else if(has(f, "new %s( \"%s\",")) {              /* attribute of entity type: statement in four pieces (2nd) */
        e->kind = EV_NEW; s = va_arg(ap, const char *); e->cls = s[0]; s = va_arg(ap, const char *); cp(e, s);
    } else if(has(f, " %s::%s%s, %s,\n")) {             /* (3rd piece) type and optionality */
        e->kind = EV_TYPEOPT; (void)va_arg(ap, const char *); (void)va_arg(ap, const char *); (void)va_arg(ap, const char *); s = va_arg(ap, const char *); e->optc = s[1];
    } else if(has(f, "       %s%s, *%s::%s%s);")) {     /* (4th piece) uniqueness and attribute type */
        e->kind = EV_UNIQ; s = va_arg(ap, const char *); e->uniqc = s[1]; s = va_arg(ap, const char *); e->atype = attrtype(s);
    } else if(has(f, "->Add%sAttr (")) { e->kind = EV_ADD; (void)va_arg(ap, const char *); (void)va_arg(ap, const char *); (void)va_arg(ap, const char *); s = va_arg(ap, const char *); e->addk = s[0]; }
    else if(has(f, "->initializer_(")) e->kind = EV_INIT;
    else if(has(f, "->inverted_attr_id_(")) { e->kind = EV_INVID; (void)va_arg(ap, const char *); (void)va_arg(ap, const char *); (void)va_arg(ap, int); (void)va_arg(ap, const char *); (void)va_arg(ap, const char *); s = va_arg(ap, const char *); cp(e, s); }
    else if(has(f, "AddSupertype_Stmt( \"ABSTRACT SUPERTYPE\" )")) e->kind = EV_ABSTRACT;
    else if(has(f, "reg.AddEntity(")) e->kind = EV_REG;
    else if(has(f, "AddEntityWInverse(")) e->kind = EV_WINV;
    va_end(ap);
    return 0;
}
static int count(int kind) { int i, c = 0; for(i = 0; i < 16; i++) if(i < nev && evs[i].kind == kind) c++; return c; }
static struct ev *find(int kind) { int i; for(i = 0; i < 16; i++) if(i < nev && evs[i].kind == kind) return &evs[i]; return 0; }
void harness(void) {
    struct ev *n, *o, *u, *a; int isinv, isder, isred; char want_cls, want_atype, want_letter;
    VERIF_BEGIN();
    isinv = inverse & 1; isder = derived & 1; isred = redecl & 1;
    ASSUME(!(isinv && isder));                 /* EXPRESS: an attribute is explicit, derived or inverse */
    ASSUME(!isinv || ATYPE == 1);              /* an inverse attribute is of entity type (or an aggregate of it) */
    ASSUME(!isinv || !isred);
    sch.symbol.name = "sch"; sch.type = OBJ_SCHEMA; sch.u.schema = &schbody;
    empty.mark = &emark; emark.next = &emark; emark.prev = &emark;
    attrs.mark = &amark; amark.next = &alink; alink.next = &amark; alink.prev = &amark; amark.prev = &alink; alink.data = &v;
    ent.symbol.name = "ent"; ent.type = OBJ_ENTITY; ent.u.entity = &entbody; ent.superscope = &sch;
    ent2.symbol.name = "oth"; ent2.type = OBJ_ENTITY; ent2.u.entity = &ent2body; ent2.superscope = &sch;
    entbody.supertypes = &empty; entbody.attributes = &attrs; entbody.abstract = abstr & 1;
    aty.t.u.type = &aty.h; aty.t.type = OBJ_TYPE; aty.h.body = &aty.b; aty.t.superscope = &sch;
    if(ATYPE == 0) { aty.t.symbol.name = "lab"; aty.b.type = string_; }
    else if(ATYPE == 1) { aty.t.symbol.name = "oth"; aty.b.type = entity_; aty.b.entity = &ent2; }
    else if(ATYPE == 2) { aty.t.symbol.name = 0; aty.b.type = integer_; }
    else { aty.t.symbol.name = 0; aty.b.type = list_; aty.b.base = &basety.t; basety.t.u.type = &basety.h; basety.t.type = OBJ_TYPE; basety.h.body = &basety.b; basety.b.type = integer_; }
    e_name.symbol.name = "attr"; e_invname.symbol.name = "inv"; vinv.name = &e_invname;
    v.name = &e_name; v.type = &aty.t; v.idx = 0; v.flags.optional = opt & 1; v.flags.unique = uniq & 1; v.flags.attribute = 1;
    v.initializer = isder ? &e_init : 0; v.inverse_attribute = isinv ? &vinv : 0;
    CHECK(TYPEget_body(v.type)->type == (ATYPE == 0 ? string_ : (ATYPE == 1 ? entity_ : (ATYPE == 2 ? integer_ : list_))) && ENTITYget_attributes(&ent) == &attrs, "harness self-check: hand-built objects read back through the macros");
    ENTITYincode_print(&ent, stdout, stderr, &sch);
    OBS("atype=%d opt=%d uniq=%d der=%d inv=%d red=%d abs=%d events=%d", ATYPE, opt & 1, uniq & 1, isder, isinv, isred, abstr & 1, nev);
    n = find(EV_NEW); CHECK(n && count(EV_NEW) == 1, "exactly one attribute descriptor is created for the attribute");
    want_cls = isinv ? 'I' : (isder ? 'D' : 'A');
    want_atype = isinv ? 0 : (isder ? 'D' : (isred ? 'R' : 'E'));
    want_letter = isder ? 'D' : (isred ? 'R' : (isinv ? 'I' : 0));
    if(n) {
        CHECK(n->cls == want_cls, "descriptor class matches the attribute kind (Inverse_attribute / Derived_attribute / AttrDescriptor)");
        if(!isred) CHECK(n->n0 == 'a' && n->n1 == 't' && n->n2 == 't' && n->n3 == 'r' && n->n4 == 0, "the descriptor carries the declared attribute name");
        else CHECK(n->n0 == 's' && n->n1 == 'u' && n->n2 == 'p' && n->n3 == '.' && n->n4 == 'a', "a redeclared attribute is named <supertype>.<attribute> in the dictionary (SELF\\ stripped)");
        o = ATYPE == 1 ? find(EV_TYPEOPT) : n; u = ATYPE == 1 ? find(EV_UNIQ) : n;
        CHECK(o && o->optc == ((opt & 1) ? 'T' : 'F'), "optionality is LTrue iff the attribute is OPTIONAL");
        CHECK(u && u->uniqc == ((uniq & 1) ? 'T' : 'F'), "uniqueness is LTrue iff the attribute appears in a UNIQUE rule");
        CHECK(u && u->atype == want_atype, "the attribute type constant matches the kind (Deriving / Redefining / Explicit, none for inverse)");
        if(ATYPE != 1) CHECK(n->letter == want_letter, "the descriptor variable carries the kind letter");
    }
    a = find(EV_ADD); CHECK(a && count(EV_ADD) == 1 && a->addk == (isinv ? 'I' : 'E'), "the descriptor is added once, to the inverse list iff it is an inverse attribute");
    CHECK(count(EV_INIT) == isder, "the initializer is recorded iff the attribute is derived");
    CHECK(count(EV_INVID) == isinv && (!isinv || find(EV_INVID)->n0 == 'i'), "the inverted attribute is recorded iff the attribute is inverse");
    CHECK(count(EV_REG) == 1, "the entity is registered exactly once");
    CHECK(count(EV_WINV) == isinv, "the entity is listed among those with inverse attributes iff it has one");
    CHECK(count(EV_ABSTRACT) == (abstr & 1), "the ABSTRACT SUPERTYPE statement is emitted iff the entity is abstract");
    VERIF_END();
}
