from vrun import H
LEVEL_TEXT = ('Bounded model checking (CBMC) of the C++ generator emission kernels with symbolic schema-level attributes: the emitted dictionary-construction text is '
  'compared with what the schema declares (flags, bounds, kinds, order).')
PM = 'lib/cmodels/printf_model.c'
HARNESSES = [
  H('aggr_bound%d' % nr, 'c', 'harness/C02/h_aggrinit.c', repo_srcs=['src/exp2cxx/classes_type.c'], defs={'BOUNDNR': nr}, unwind=60, object_bits=10, cflags=['-I/repo/src/exp2cxx', '-fno-builtin'],
    bounds='AGGRprint_bound for bound %d: resolved bound in {integer literal 0..99, "?", non-literal reference with arbitrary pointer payload}; second run with a different payload' % nr,
    stubs=['fprintf: structured capture (statement recognised by its format literal, integer and first bytes of string arguments recorded)', 'EXPRto_string: fixed text', 'Type_* globals: harness objects'],
    out_of_claim='run-time bounds (attribute references), entity/attribute descriptors, that the emitted C++ compiles (flags and the full initialiser: aggr_init)') for nr in (1, 2)
] + [
  H('aggr_init', 'c', 'harness/C02/h_aggrfull.c', repo_srcs=['src/exp2cxx/classes_type.c'], unwind=60, object_bits=10, cflags=['-I/repo/src/exp2cxx', '-fno-builtin'], shadow_scope=True,
    bounds='AGGRprint_init on one aggregate type: lower bound literal 0..99, upper bound in {literal 0..99, "?", non-literal reference (arbitrary pointer payload, result type unset/INTEGER/other), absent}, UNIQUE/OPTIONAL symbolic; second copy at other addresses',
    stubs=['fprintf: structured capture', 'EXPRto_string / ClassName: fixed text', 'Type_* globals: harness objects', 'shadow copy of include/express/*.h with Scope_.u as a struct (works around a CBMC simplifier bug on non-first union members read through a pointer; native replay uses the real headers)'],
    out_of_claim='run-time bounds (attribute references), nested aggregates, that the emitted C++ compiles'),
] + [
  H('entity_attr_t%d' % t, 'c', 'harness/C02/h_entattr.c', repo_srcs=['src/exp2cxx/classes_entity.c', 'src/exp2cxx/classes_attribute.c', 'src/exp2cxx/classes_misc.c', 'src/exp2cxx/class_strings.c'], defs={'ATYPE': t}, unwind=170, object_bits=11,
    cflags=['-I/repo/src/exp2cxx', '-fno-builtin', '-include', '/verif/harness/C17/prelude_bufsiz.h'], shadow_scope=True, no_checks=True, models=['lib/cmodels/sprintf_null.c'], allow_undef=['SUBTYPEto_string', 'format_for_std_stringout', 'print_typechain'],
    bounds='ENTITYincode_print on one entity with one attribute of %s: OPTIONAL, UNIQUE, derived, inverse, redeclared and ABSTRACT symbolic' % ('a defined type', 'entity type', 'a builtin type', 'an anonymous aggregate type (print_typechain stubbed)')[t],
    stubs=['fprintf: structured capture (statement recognised by its format literal, string arguments by their first bytes)', 'EXPRto_string: attribute name text (attr or SELF\\\\sup.attr) / fixed text', 'format_for_stringout: fixed text', 'shadow express headers (Scope_.u as a struct)', 'BUFSIZ := 63 (prelude)', 'built-in pointer checks off (functional property; memory safety of these printers is not claimed)'],
    out_of_claim='several attributes and their order, supertypes/subtypes lists, SUPERTYPE OF expressions, the descriptors of an anonymous aggregate type itself (print_typechain), the class bodies (LIBstructor_print etc.), that the emitted C++ compiles') for t in (0, 1, 2, 3)
]
JOBS = 6
MANIFEST = {
  'level_text': 'Bounded model checking of emission kernels of the C++ generator. Entity registration (ENTITYincode_print): for an entity with one attribute of a defined, entity or builtin type and every combination of OPTIONAL, UNIQUE, derived, inverse, redeclared and ABSTRACT, exactly one attribute descriptor of the matching class is emitted with the declared name, optionality, uniqueness and attribute type, added to the right list, with initializer / inverted attribute / abstract statement exactly when declared. Aggregates (AGGRprint_bound, AGGRprint_init): for every resolved bound (any literal value, "?", any non-literal with arbitrary pointer payload) the emitted dictionary initialiser carries the declared value under the right bound number, or the expression text -- never a number that is not in the schema; SetBound1/SetBound2 appear exactly for the bounds present, UniqueElements(LTrue) iff UNIQUE and OptionalElements(LTrue) iff OPTIONAL. Only these kernels are claimed; the rest of the dictionary emission (attribute order, supertype lists, enumerations, selects, class bodies) is outside.',
  'level_note': 'Trusted: CBMC, structured fprintf capture, hand-built type objects, shadow express headers (Scope_.u as a struct: work-around for a CBMC simplifier bug, see DESIGN.md section 1; native replay uses the real headers). Outside: several attributes per entity and their order, supertype/subtype lists, anonymous aggregate attribute types, enumerations, selects, run-time bounds, that the output compiles.',
  'technique': 'CBMC bounded model checking of goto-cc-compiled classes_entity.c (ENTITYincode_print) and classes_type.c (AGGRprint_bound, AGGRprint_init) on hand-built schema objects with symbolic flags, kinds and bound expressions; structured output capture; native replay',
  'design_ref': 'DESIGN.md section 2, C02',
}
