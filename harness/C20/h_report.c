/* C20-K1: ERRORreport_with_line -> ERRORreport_with_symbol -> ERROR_vprintf / vfprintf  (real src/express/error.c)
 * Sym: the diagnostic (over the lexical diagnostics that carry an argument and are raised through _with_line),
 *      the argument (string <= ARGLEN bytes / char / int), the line number, buffered or unbuffered mode, path used
 *      (with_line = lexer path, with_symbol = resolver path, control).
 * Assert: emitted text starts with "<current_filename>:<line>: " and contains the argument rendered as the message
 *      format says, i.e. the offending text -- never an empty/stale/unrelated string; ERRORoccurred set iff severity>=ERROR. */
#ifndef ARGLEN
#define ARGLEN 4
#endif
#define VERIF_INPUTS(S,A) A(char,arg,ARGLEN+1) S(unsigned char,code) S(unsigned char,ch) S(unsigned char,num) S(unsigned char,line) S(unsigned char,mode)
#include "verif.h"
#include "verif_capture.h"
#include "src/express/error.c"
void EXPRESSusage(int x) { (void)x; }
int EXPRESS_fail(Express m) { (void)m; return 1; }
char *EXPRESSprogram_name = "harness";
static char expect[VERIF_OUT_CAP]; static int elen;
static void cat(const char *s) { int j = 0; while(s[j]) expect[elen++] = s[j++]; expect[elen] = 0; }
static void catnum(unsigned v, int mindigits) { char t[12]; int n = 0, k; for(k = 0; k < 10; k++) { if(v || k < mindigits) { t[n++] = (char)('0' + v % 10u); v /= 10u; } } for(k = 9; k >= 0; k--) if(k < n) expect[elen++] = t[k]; expect[elen] = 0; }
static void catch1(char c) { expect[elen++] = c; expect[elen] = 0; }
static char space[ERROR_MAX_SPACE];
#define REPORT(ec, a) do { cat("f.exp:"); catnum((unsigned)line, 1); cat(": --ERROR PE"); catnum((unsigned)(ec), 3); cat(": "); \
    if(mode & 2) ERRORreport_with_symbol(ec, &sym, a); else ERRORreport_with_line(ec, (int)line, a); } while(0)
void harness(void) {
    int printable = 1, i; Symbol sym;
    VERIF_BEGIN();
    arg[ARGLEN] = 0;
#ifdef ONLY_CODE
    code = ONLY_CODE;
#endif
#ifdef ONLY_MODE
    mode = ONLY_MODE;
#endif
    for(i = 0; i < ARGLEN; i++) if(arg[i] && (arg[i] < 33 || arg[i] > 126 || arg[i] == '%')) printable = 0;
    ASSUME(printable); ASSUME(arg[0] != 0);
    ASSUME(ch >= 33 && ch <= 126);
    ASSUME(code < 6);
    current_filename = "f.exp";
    ERROR_string_base = space; ERROR_string_end = space + sizeof space;   /* what ERRORinitialize does, without malloc/signal */
    __ERROR_buffer_errors = (mode & 1);
    ERROR_start_message_buffer();
    ERRORoccurred = false;
    sym.filename = current_filename; sym.line = line; sym.name = 0; sym.resolved = 0;
    elen = 0; expect[0] = 0;
    verif_capture_begin();
    switch(code) {
    case 0: REPORT(BAD_IDENTIFIER, arg);           cat("identifier ("); cat(arg); cat(") cannot start with underscore"); break;
    case 1: REPORT(UNEXPECTED_CHARACTER, (int)ch);      cat("character ("); catch1((char)ch); cat(") is not a valid lexical element by itself"); break;
    case 2: REPORT(ENCODED_STRING_BAD_DIGIT, (int)ch);  cat("non-hex digit ("); catch1((char)ch); cat(") in encoded string literal"); break;
    case 3: REPORT(ENCODED_STRING_BAD_COUNT, (int)num); cat("number of digits ("); catnum((unsigned)num, 1); cat(") in encoded string literal is not divisible by 8"); break;
    case 4: REPORT(INCLUDE_FILE, arg);             cat("Could not open include file `"); cat(arg); cat("'."); break;
    default: REPORT(UNDEFINED, arg);               cat("Reference to undefined object "); cat(arg); cat("."); break;
    }
    if(!(mode & 1)) cat("\n");       /* unbuffered: newline; buffered: messages are NUL-separated in the buffer and printed with %s */
    ERROR_flush_message_buffer();
    verif_capture_end();
    OBS("out=[%s]", verif_out);
    CHECK(!verif_out_ovf, "capture buffer large enough");
    { int same = 1; for(i = 0; i < VERIF_OUT_CAP; i++) { if(i <= elen && verif_out[i] != expect[i]) same = 0; }
      CHECK(same, "diagnostic = <file>:<line>: --ERROR PE<code>: <message with the offending text from the input>"); }
    CHECK(ERRORoccurred == true, "an ERROR-class diagnostic sets ERRORoccurred");
    VERIF_END();
}
