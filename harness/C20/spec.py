from vrun import H
LEVEL_TEXT = ('Bounded model checking (CBMC, SAT) of the real src/express/error.c (compiled by goto-cc with the flags of the real build): '
  'diagnostic formatting through ERRORreport_with_line/_with_symbol with a content model of vsnprintf/vfprintf, and the -w/-i warning switches, '
  'for ALL argument strings / characters / counts / line numbers / class names within the byte bounds.')
PM = 'lib/cmodels/printf_model.c'
CODES = ['BAD_IDENTIFIER(%s)', 'UNEXPECTED_CHARACTER(%c)', 'ENCODED_STRING_BAD_DIGIT(%c)', 'ENCODED_STRING_BAD_COUNT(%d)', 'INCLUDE_FILE(%s)', 'UNDEFINED(%s, resolver-path control)']
HARNESSES = [
  H('setwarn', 'c', 'harness/C20/h_setwarn.c', tracked=['src/express/error.c'],
    defs={'quick': {'NAMELEN': 8}, 'thorough': {'NAMELEN': 24}}, unwind={'quick': 11, 'thorough': 27},
    unwindset=['ERRORset_warning.0:80', 'ERRORset_all_warnings.0:80', 'harness.0:80', 'harness.1:80', 'harness.2:80'],
    cflags=['-I/repo'], models=['lib/cmodels/printf_null.c'],
    bounds='warning-class name: every byte string of <= 8 (quick) / 24 (thorough) bytes; flag and usage-hook presence symbolic; all 78 table entries (concrete table; table loops unwound 80 > 78+1, string loops NAMELEN+3)',
    stubs=['EXPRESSusage/ERRORusage_function: record the call', 'fprintf: empty body'],
    out_of_claim='fedex.c option parsing that calls these (see C04 main gating)',
    timeout={'quick': 900, 'thorough': 2700}),
  H('setwarn_table', 'c', 'harness/C20/h_setwarn.c', tracked=['src/express/error.c'],
    defs={'NAMELEN': 8, 'TABLE_NAMES': 1}, unwind=81,
    cflags=['-I/repo'], models=['lib/cmodels/printf_null.c'],
    bounds='the class name is that of the k-th entry of the real diagnostics table (k symbolic over all named entries, ERROR-class ones included), flag and usage-hook presence symbolic',
    stubs=['EXPRESSusage/ERRORusage_function: record the call', 'fprintf: empty body'],
    out_of_claim='fedex.c option parsing that calls these (see C04 main gating)',
    timeout={'quick': 1800, 'thorough': 2700}),
] + [
  H('report_m%d_c%d' % (m, c), 'c', 'harness/C20/h_report.c', tracked=['src/express/error.c'],
    defs={'quick': {'ARGLEN': 4, 'VERIF_OUT_CAP': 128, 'VERIF_STR_MAX': 128, 'ONLY_MODE': m, 'ONLY_CODE': c}, 'thorough': {'ARGLEN': 6, 'VERIF_OUT_CAP': 128, 'VERIF_STR_MAX': 128, 'ONLY_MODE': m, 'ONLY_CODE': c}}, unwind=130,   # VERIF_STR_MAX: the buffered modes print the whole stored message through one %s
    cflags=['-I/repo'], models=[PM], tiers=('quick', 'thorough') if not (m & 1) else ('thorough',),
    bounds='forked per query: mode %d (%s, entry %s), diagnostic %s; symbolic: argument string of 1..4 (thorough 6) printable bytes / any printable char / count 0..255, line 0..255'
           % (m, 'buffered' if m & 1 else 'unbuffered', 'ERRORreport_with_symbol' if m & 2 else 'ERRORreport_with_line', CODES[c]),
    stubs=['vsnprintf/vfprintf/fprintf/fputc: content model lib/cmodels/printf_model.c (diffed against glibc at setup)', 'message buffer: static 4000-byte array instead of malloc(4000); signal() not installed', 'exit/abort not reached (no EXIT-class code in the set)'],
    out_of_claim='semantic diagnostics raised on parser-built ASTs; line-number accuracy; numbers above 255',
    timeout={'quick': 900, 'thorough': 3600}, mem_gb=30) for m in (0, 1, 2, 3) for c in range(6)
]
HARNESSES += [
  H('lexsite_encoded_string', 'c', 'harness/C06/h_lexact.c', tracked=['src/express/lexact.c'], cflags=['-I/repo'], models=['lib/cmodels/printf_null.c'],
    defs={'quick': {'KERNEL': 4, 'NB': 6}, 'thorough': {'KERNEL': 4, 'NB': 10}}, unwind={'quick': 10, 'thorough': 14},
    bounds='call sites of the lexical diagnostics in SCANprocess_encoded_string: every byte string of <= 6 (10) bytes; the reporter is a stub recording (code, line, argument)',
    stubs=['ERRORreport_with_line: records its arguments'], out_of_claim='other lexer call sites (scanner rules in expscan.l)'),
]
JOBS = 12
JOBS_THOROUGH = 3   # the buffered-mode queries need up to 20 GB each
MANIFEST = {
  'level_text': 'Bounded model checking of the real error.c: for every argument string/char/count within the bounds, each lexical diagnostic raised through ERRORreport_with_line and the resolver-path control prints exactly "<file>:<line>: --ERROR PE<nnn>: <message quoting the offending text>", and ERRORset_warning/ERRORset_all_warnings change only the named warning class and can never disable an ERROR-class diagnostic, also when the option names an ERROR-class diagnostic of the real table (so -w/-i cannot change a verdict). Kernel level: the composition into a whole check-express run is not encoded.',
  'level_note': 'Trusted: CBMC 6.11, printf content model (diffed against glibc at setup), harness oracles. Assumes printable argument bytes, numbers 0..255, one diagnostic per call. Outside the claim: semantic diagnostics on parser-built ASTs, line-number accuracy, call sites in the scanner.',
  'technique': 'CBMC bounded model checking (SAT, CaDiCaL) of goto-cc-compiled error.c with symbolic arguments; counterexamples replayed on a gcc/ASan build',
  'design_ref': 'DESIGN.md section 2, C20',
}
