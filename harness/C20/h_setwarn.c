/* C20-K2: ERRORset_warning / ERRORset_all_warnings / ERRORis_enabled  (real src/express/error.c, #included for access to LibErrors)
 * Sym: warning-class name of <= NAMELEN bytes (arbitrary bytes, NUL-terminated), flag.
 * Assert: no invalid access (CBMC built-in checks); only entries with severity <= WARNING and an equal name change,
 *         and they change to the flag; no entry of severity >= ERROR is ever disabled (the verdict cannot change);
 *         a name matching no warning class reaches the usage function. */
#ifndef NAMELEN
#define NAMELEN 8
#endif
#define VERIF_INPUTS(S,A) A(char,name,NAMELEN+1) S(unsigned char,flag) S(unsigned char,which) S(unsigned char,entry)
#include "verif.h"
#include "src/express/error.c"
static int usage_called;
static void my_usage(void) { usage_called++; }
void EXPRESSusage(int x) { (void)x; usage_called++; }
int EXPRESS_fail(Express m) { (void)m; return 1; }
char *EXPRESSprogram_name = "harness";
#define NERR (sizeof LibErrors / sizeof LibErrors[0])
static int streq(const char *a, const char *b) { int i = 0; for(;; i++) { if(a[i] != b[i]) return 0; if(!a[i]) return 1; } }
void harness(void) {
    bool before[NERR]; unsigned i; int matched = 0;
    VERIF_BEGIN();
    name[NAMELEN] = 0;
    ERRORusage_function = (which & 2) ? my_usage : 0;
    for(i = 0; i < NERR; i++) before[i] = LibErrors[i].override;
    if(which & 1) {
        ERRORset_all_warnings(flag & 1);
        for(i = 0; i < NERR; i++) {
            if(LibErrors[i].severity <= SEVERITY_WARNING && LibErrors[i].message) CHECK(LibErrors[i].override == (flag & 1), "set_all_warnings sets every warning entry");
            if(LibErrors[i].severity >= SEVERITY_ERROR) CHECK(LibErrors[i].override == before[i] && ERRORis_enabled(i), "set_all_warnings never disables an ERROR-class entry");
        }
    } else {
#ifdef TABLE_NAMES
        /* the name is the class name of the entry-th table entry (symbolic index over the REAL table, ERROR-class entries included):
         * covers every name the tools document, whatever its length */
        { static char tn[40]; int k; ASSUME(entry < NERR); ASSUME(LibErrors[entry].name != 0);
          for(k = 0; k < 39; k++) { char c = LibErrors[entry].name[k]; tn[k] = c; if(!c) break; }
          tn[39] = 0;
          ERRORset_warning(tn, flag & 1);
          for(k = 0; k < 40; k++) name[k < NAMELEN ? k : NAMELEN] = 0;   /* not used below */
          for(i = 0; i < NERR; i++) {
              int m = LibErrors[i].severity <= SEVERITY_WARNING && LibErrors[i].name && streq(LibErrors[i].name, tn);
              if(m) { matched = 1; CHECK(LibErrors[i].override == (flag & 1), "set_warning sets the matching warning class"); }
              else CHECK(LibErrors[i].override == before[i], "set_warning leaves every other entry alone (in particular ERROR-class entries that carry a class name)");
              if(LibErrors[i].severity >= SEVERITY_ERROR) CHECK(ERRORis_enabled(i), "set_warning never disables an ERROR-class entry");
          }
          CHECK((usage_called > 0) == !matched, "a name that is not a WARNING class reaches the usage function");
          OBS("entry=%d matched=%d usage=%d", (int)entry, matched, usage_called);
          VERIF_END(); return; }
#endif
        ERRORset_warning(name, flag & 1);
        for(i = 0; i < NERR; i++) {
            int m = LibErrors[i].severity <= SEVERITY_WARNING && LibErrors[i].name && streq(LibErrors[i].name, name);
            if(m) { matched = 1; CHECK(LibErrors[i].override == (flag & 1), "set_warning sets the matching warning class"); }
            else CHECK(LibErrors[i].override == before[i], "set_warning leaves every other entry alone");
            if(LibErrors[i].severity >= SEVERITY_ERROR) CHECK(ERRORis_enabled(i), "set_warning never disables an ERROR-class entry");
        }
        CHECK((usage_called > 0) == !matched, "unknown warning name reaches the usage function, known one does not");
        OBS("matched=%d usage=%d", matched, usage_called);
    }
    VERIF_END();
}
