// extern "C" entry points over the real InstMgr / MgrNode / MgrNodeArray / GenNodeArray
#define private public
#define protected public
#include "clstepcore/instmgr.h"
#include "clstepcore/sdai.h"
#ifdef WITH_NAMES
#include "clstepcore/ExpDict.h"
#endif
#undef private
#undef protected
#include "../common/stdstreams.h"
#ifndef NPOOL
#define NPOOL 4
#endif
static InstMgr *im;
static SDAI_Application_instance *pool[NPOOL];
static int slot_of(SDAI_Application_instance *se) { for(int i = 0; i < NPOOL; i++) if(se == pool[i]) return i; return -2; }
extern "C" {
__attribute__((noinline)) void w_init(int owns) {
    im = new InstMgr(owns);
#ifdef SMALL_ARRAY
    delete im->master; im->master = new MgrNodeArray(SMALL_ARRAY);      // small slot array: growth path (GenNodeArray::Check) inside the bound
#endif
    for(int i = 0; i < NPOOL; i++) pool[i] = new SDAI_Application_instance();
}
// pre-state of concrete shape (n instances appended through the real Append), then ids / maxFileId / states overwritten with the given values
__attribute__((noinline)) void w_prestate(int n, const int *ids, const int *states, int maxid) {
    for(int i = 0; i < n; i++) { pool[i]->StepFileId(i + 1); im->Append(pool[i], completeSE); }
    for(int i = 0; i < n; i++) {
        pool[i]->StepFileId(ids[i]);
#ifdef VSTD
        im->sortedMaster->a[i].first = ids[i];
#else
        { std::map<int, MgrNode *>::iterator it = im->sortedMaster->find(i + 1); MgrNode *mn = it->second; im->sortedMaster->erase(it); (*im->sortedMaster)[ids[i]] = mn; }
#endif
        im->GetMgrNode(i)->ChangeState((stateEnum)states[i]);
    }
    im->maxFileId = maxid;
}
__attribute__((noinline)) int w_append(int pi, int id, int state) { pool[pi]->StepFileId(id); MgrNode *mn = im->Append(pool[pi], (stateEnum)state); return mn ? pool[pi]->StepFileId() : -1; }
__attribute__((noinline)) int w_append_again(int pi, int state) { MgrNode *mn = im->Append(pool[pi], (stateEnum)state); return mn ? 1 : 0; }
__attribute__((noinline)) int w_delete_node(int pi) { MgrNode *mn = im->GetMgrNode(pi); /* pre-state: slot i sits at index i (concrete pointer) */ if(!mn || mn->GetApplication_instance() != pool[pi]) return 0; im->Delete(mn); pool[pi] = new SDAI_Application_instance(); return 1; }
__attribute__((noinline)) int w_delete_inst(int pi) { SDAI_Application_instance *se = pool[pi]; im->Delete(se); pool[pi] = new SDAI_Application_instance(); return 1; }
__attribute__((noinline)) void w_change_state(int pi, int state) { MgrNode *mn = im->GetMgrNode(pi); if(mn) im->ChangeState(mn, (stateEnum)state); }
__attribute__((noinline)) void w_clear() { im->ClearInstances(); }
__attribute__((noinline)) int w_count() { return im->InstanceCount(); }
__attribute__((noinline)) int w_find(int id) { MgrNode *mn = im->FindFileId(id); if(!mn) return -1; return slot_of(mn->GetApplication_instance()); }
__attribute__((noinline)) int w_at(int idx) { MgrNode *mn = im->GetMgrNode(idx); if(!mn) return -1; if(im->GetIndex(mn) != idx) return -3; if(im->GetApplication_instance(idx) != mn->GetApplication_instance()) return -4; return slot_of(mn->GetApplication_instance()); }
__attribute__((noinline)) int w_index_of(int pi) { MgrNode *mn = im->FindFileId(pool[pi]->StepFileId()); return mn ? im->GetIndex(mn) : -1; }   // GetIndex(SDAI_Application_instance*) is declared but never defined in the library
__attribute__((noinline)) int w_state_at(int idx) { MgrNode *mn = im->GetMgrNode(idx); return mn ? (int)mn->CurrState() : -1; }
__attribute__((noinline)) int w_id_of(int pi) { return pool[pi]->StepFileId(); }
#ifdef WITH_NAMES
// entity types for the name look-up: instance i is an "Aent" when bit i of kinds is set, otherwise a "Bent"
__attribute__((noinline)) void w_set_kinds(int kinds) {
    static EntityDescriptor edA("Aent", (Schema *)0, LFalse, LFalse), edB("Bent", (Schema *)0, LFalse, LFalse);
    for(int i = 0; i < NPOOL; i++) pool[i]->eDesc = ((kinds >> i) & 1) ? &edA : &edB;
}
// InstMgr::GetApplication_instance( keyword, start ): returns the pool slot of the instance found, -1 for ENTITY_NULL
__attribute__((noinline)) int w_find_name(int start) { SDAI_Application_instance *se = im->GetApplication_instance("AENT", start); return (se == ENTITY_NULL || se == 0) ? -1 : slot_of(se); }
#endif
__attribute__((noinline)) int w_max() { return im->MaxFileId(); }
__attribute__((noinline)) int w_next() { return im->NextFileId(); }
}
