/* C13: one operation of the real InstMgr from an ARBITRARY VALID STATE of concrete shape (inductive step).
 * Pre-state: NPRE live instances (slots 0..NPRE-1) with symbolic pairwise distinct ids, symbolic states, symbolic
 * maxFileId >= every live id -- the representation invariant Inv.  Then exactly one operation (OP, forked per query)
 * with symbolic arguments.  Assert: Inv again + the observations of the property statement against a list+dict model.
 *   OP 0 append(new instance, id symbolic: 0 = automatic, unused explicit, or duplicate of a live id)
 *   OP 1 append(same instance twice)       OP 2 delete by node (slot DEL)      OP 3 delete by instance (slot DEL)
 *   OP 4 change state (slot DEL)           OP 5 ClearInstances then append     OP 6 queries only (NextFileId freshness)
 *   OP 7 (NPRE 0) history of length 2 from the empty manager: append(new) ; append(same again)
 */
#ifndef NPRE
#define NPRE 2
#endif
#ifndef DEL
#define DEL 0
#endif
#define VERIF_INPUTS(S,A) A(int,id,3) A(unsigned char,st,3) S(int,mx) S(int,nid) S(unsigned char,nst) S(int,probe) S(unsigned char,owns) S(unsigned char,kinds) S(unsigned char,start)
#include "verif.h"
void w_init(int); void w_prestate(int, const int *, const int *, int); int w_append(int, int, int); int w_append_again(int, int);
int w_delete_node(int); int w_delete_inst(int); void w_change_state(int, int); void w_clear(void);
int w_count(void); int w_find(int); int w_at(int); int w_index_of(int); int w_state_at(int); int w_id_of(int); int w_max(void); int w_next(void); void w_set_kinds(int); int w_find_name(int);
#define MAXID 1000000
static void check_queries(const int *slots, const int *ids, const int *states, int n, int probe_) {
    /* slots[k]: pool slot expected at index k */
    int k, hit = -1;
    CHECK(w_count() == n, "count equals the number of live instances");
    for(k = 0; k < 4; k++) if(k < n) {
        CHECK(w_at(k) == slots[k], "i-th instance is the i-th survivor in insertion order and reports index i");
        CHECK(w_find(ids[k]) == slots[k], "look-up by file id returns the live instance carrying that id");
        CHECK(w_index_of(slots[k]) == k, "GetIndex of an instance is its position");
        CHECK(w_state_at(k) == states[k], "state of an untouched instance is unchanged");
        CHECK(w_max() >= ids[k], "maximum id is never below a live id");
        if(ids[k] == probe_) hit = slots[k];
    }
    CHECK(w_at(n) == -1, "no instance beyond the count");
    CHECK(w_find(probe_) == hit, "look-up of any other id returns nothing");
}
void harness(void) {
    int i, ids[4], sts[4], slots[4], n = NPRE;
    VERIF_BEGIN();
    /* Inv: a managed instance never carries id 0 (0 = "no id assigned"; Append replaces it, NextFileId never returns it -- asserted in OP 0/6/7) */
    for(i = 0; i < 3; i++) { ASSUME(id[i] >= 1 && id[i] <= MAXID); ASSUME(st[i] >= 1 && st[i] <= 4); }
    ASSUME(id[0] != id[1] && id[1] != id[2] && id[0] != id[2]);
    ASSUME(mx >= -1 && mx <= 2 * MAXID); for(i = 0; i < NPRE; i++) ASSUME(mx >= id[i]);
    ASSUME(probe >= -2 && probe <= 2 * MAXID + 2);
    ASSUME(nst >= 1 && nst <= 4);
#ifdef CONCRETE_IDS
    /* delete queries: ids concretised to distinct constants (the real code only compares ids for equality, through std::map);
       states, maxFileId and the probe id stay symbolic */
    id[0] = 5; id[1] = 9; id[2] = 12; ASSUME(mx >= (NPRE >= 3 ? 12 : (NPRE == 2 ? 9 : (NPRE == 1 ? 5 : -1))));   /* >= the LIVE ids only: the highest live id may be the maximum itself */
#endif
    for(i = 0; i < 3; i++) { ids[i] = id[i]; sts[i] = st[i]; slots[i] = i; }
    w_init(owns & 1);
    w_prestate(NPRE, ids, sts, mx);
#if OP == 0
    { int got, dup = 0;
      ASSUME(nid >= 0 && nid <= MAXID);
      got = w_append(NPRE, nid, nst);
      for(i = 0; i < NPRE; i++) if(id[i] == nid) dup = 1;
      if(nid != 0 && !dup) CHECK(got == nid, "explicit unused id is kept");
      else { CHECK(got > mx && got != 0, "automatically assigned id is above every id seen and is a real id (0 means unassigned)"); for(i = 0; i < NPRE; i++) CHECK(got != id[i], "automatically assigned id is fresh"); }
      ids[n] = got; sts[n] = nst; slots[n] = NPRE; n++;
      CHECK(w_id_of(NPRE) == got, "the instance carries the id it was registered under");
      CHECK(w_max() >= mx && w_max() >= got, "maximum id never decreases on append");
      check_queries(slots, ids, sts, n, probe); }
#elif OP == 1
    { int r = w_append_again(DEL, nst);
      CHECK(r == 0, "appending an instance that is already managed adds nothing");
      check_queries(slots, ids, sts, n, probe); }
#elif OP == 2 || OP == 3
    { int k = 0, r;
      r = (OP == 2) ? w_delete_node(DEL) : w_delete_inst(DEL);
      CHECK(r == 1, "delete of a live instance succeeds");
      for(i = 0; i < NPRE; i++) if(i != DEL) { ids[k] = id[i]; sts[k] = st[i]; slots[k] = i; k++; }
      n = k;
      CHECK(w_find(id[DEL]) == -1, "a deleted id is no longer found");
      CHECK(w_max() >= mx, "maximum id does not decrease on delete");
      check_queries(slots, ids, sts, n, probe); }
#elif OP == 4
    { w_change_state(DEL, nst); sts[DEL] = nst;
      check_queries(slots, ids, sts, n, probe); }
#elif OP == 5
    { int got;
      w_clear();
      CHECK(w_count() == 0 && w_find(probe) == -1 && w_at(0) == -1, "cleared manager is empty");
      ASSUME(nid >= 0 && nid <= MAXID);
      got = w_append(NPRE, nid, nst);
      if(nid != 0) CHECK(got == nid, "after a clear every explicit id is unused"); else CHECK(got >= 0, "automatic id after clear is fresh");
      ids[0] = got; sts[0] = nst; slots[0] = NPRE;
      check_queries(slots, ids, sts, 1, probe); }
#elif OP == 8
    /* look-up by entity name from a start index: the first instance of that type at or after the index, in insertion order */
    { int r, want = -1, k; ASSUME(start <= 4);
      w_set_kinds(kinds);
      for(k = NPRE - 1; k >= 0; k--) if(k >= (int)start && ((kinds >> k) & 1)) want = k;
      r = w_find_name((int)start);
      CHECK(r == want, "look-up by entity name returns the first match at or after the start index, nothing if there is none");
      check_queries(slots, ids, sts, n, probe); }
#elif OP == 7
    /* history of length 2 from the empty manager: append(new, automatic id) ; append(the same instance again) */
    { int got = w_append(0, 0, nst), r;
      CHECK(got != 0 && got != -1, "first automatic id is a real id");
      r = w_append_again(0, nst);
      CHECK(r == 0, "appending an instance that is already managed adds nothing");
      ids[0] = got; sts[0] = nst; slots[0] = 0;
      CHECK(w_id_of(0) == got, "a managed instance keeps its id");
      check_queries(slots, ids, sts, 1, probe); }
#else
    { int a = w_next(), b = w_next();
      CHECK(a > mx && b > a && a != 0, "NextFileId hands out fresh, increasing, non-zero ids above every id seen");
      for(i = 0; i < NPRE; i++) CHECK(a != id[i] && b != id[i], "NextFileId never returns a live id");
      check_queries(slots, ids, sts, n, probe); }
#endif
    VERIF_END();
}
