from vrun import H
LEVEL_TEXT = ('Bounded model checking (CBMC) of the real InstMgr/MgrNode/MgrNodeArray/GenNodeArray code, translated from LLVM IR: one operation from an arbitrary valid '
  'state of concrete shape with symbolic ids/states/maxFileId (inductive step over the representation invariant), op code and pre-state size forked per query.')
SRCS = ['src/clstepcore/instmgr.cc', 'src/clstepcore/mgrnode.cc', 'src/clstepcore/mgrnodearray.cc', 'src/clstepcore/mgrnodelist.cc', 'src/clutils/gennodearray.cc',
        'src/clutils/gennode.cc', 'src/clutils/gennodelist.cc', 'src/clstepcore/sdaiApplication_instance.cc', 'src/cldai/sdaiDaObject.cc', 'src/cldai/sdaiObject.cc',
        'src/clstepcore/dispnode.cc', 'src/clstepcore/dispnodelist.cc', 'src/clstepcore/STEPattributeList.cc', 'src/clstepcore/SingleLinkList.cc', 'src/clutils/Str.cc',
        'src/cldai/sdaiString.cc', 'src/clstepcore/sdai.cc', 'src/cldai/sdaiEnum.cc']
NAMES = ['src/clstepcore/entityDescriptor.cc', 'src/clstepcore/typeDescriptor.cc', 'src/clstepcore/attrDescriptorList.cc', 'src/clstepcore/entityDescriptorList.cc', 'src/clstepcore/inverseAttributeList.cc', 'src/clstepcore/schRename.cc', 'src/clstepcore/uniquenessRule.cc', 'src/clstepcore/whereRule.cc']
NATIVE = SRCS + ['src/clutils/errordesc.cc', 'src/clstepcore/read_func.cc']
OPS = {0: 'append', 1: 'append_same_twice', 2: 'delete_node', 3: 'delete_instance', 4: 'change_state', 5: 'clear_then_append', 6: 'next_id', 7: 'seq_append_append_same', 8: 'find_by_name'}
def mk(op, npre, dele=0, tiers=('quick', 'thorough')):
    return H('%s_n%d%s' % (OPS[op], npre, ('_d%d' % dele) if op in (1, 2, 3, 4) else ''), 'irc', 'harness/C13/h_instmgr.c', wrapper='harness/C13/wrap_instmgr.cc',
      repo_srcs=SRCS + (NAMES if op == 8 else []), native_lib=['src/clstepcore', 'src/clutils', 'src/cldai'], irc_extra_cc=['harness/common/errordesc_stub.cc'], models=['lib/cmodels/cxx_rt.c', 'lib/cmodels/printf_null.c', 'lib/cmodels/sprintf_null.c'],
      defs={'OP': op, 'NPRE': npre, 'DEL': dele, **({'CONCRETE_IDS': 1} if op in (2, 3) else {}), **({'WITH_NAMES': 1} if op == 8 else {}), 'SMALL_ARRAY': 2, 'NPOOL': 4, 'VSTR_CAP': 8, 'VSTREAM_CAP': 8, 'VOSTREAM_CAP': 8, 'VCONT_CAP': 6},
      unwind=8 if op != 8 else 12, object_bits=11, tiers=tiers, mem_gb=12 if op != 8 else 30, no_checks=(op == 8), allow_undef=['_ZN13STEPattributeD1Ev'] + (['_ZN11STEPcomplex12EntityExistsEPKcS1_'] if op == 8 else []),
      bounds='pre-state of %d live instances (array capacity 2, growth path included), ids %s, states symbolic, maxFileId symbolic >= live ids; operation %s%s with symbolic id/state/probe id; owning flag symbolic' % (npre, 'concretised to 5,9,12 (delete only compares ids for equality through std::map)' if op in (2, 3) else 'symbolic in [1,10^6] pairwise distinct', OPS[op], (' on slot %d' % dele) if op in (1, 2, 3, 4) else ''),
      assumptions=['Delete is called with a live node/instance', 'representation invariant Inv as stated in DESIGN.md C13'],
      stubs=['vstd map (association list), string, streams', 'operator new = calloc', 'ErrorDescriptor messages dropped', '__dynamic_cast = identity', 'STEPattribute::~STEPattribute left without body: the harness instances own no attributes, the destructor loop over an empty list never calls it'],
      out_of_claim='states with more than 4 live instances, display lists, VerifyInstances, long random histories',
      samples=[{'id': [5, 9, 12], 'st': [1, 1, 1], 'mx': 12, 'nid': 0, 'nst': 1, 'probe': 9, 'owns': 0}, {'id': [5, 9, 12], 'st': [1, 2, 4], 'mx': 40, 'nid': 9, 'nst': 2, 'probe': 41, 'owns': 1}, {'id': [3, 2, 1], 'st': [1, 1, 1], 'mx': 3, 'nid': 7, 'nst': 4, 'probe': 7, 'owns': 0}],
      timeout={'quick': 900, 'thorough': 2400})
HARNESSES = []
for n in (0, 1, 2, 3):
    HARNESSES += [mk(0, n), mk(5, n, tiers=('thorough',) if n not in (0, 2) else ('quick', 'thorough')), mk(6, n, tiers=('thorough',) if n != 2 else ('quick', 'thorough'))]
    for d in range(n):
        q = ('quick', 'thorough') if n <= 2 or d == 1 else ('thorough',)
        HARNESSES += [mk(1, n, d, tiers=q), mk(2, n, d, tiers=q), mk(3, n, d, tiers=q), mk(4, n, d, tiers=('thorough',) if n == 3 else q)]
HARNESSES += [mk(7, 0), mk(6, 0)]   # mk(8, n) (look-up by entity name: OP 8 in the harness, w_find_name in the wrapper) exists but gave no verdict within 300 s / 30 GB (EntityDescriptor construction in the formula): not registered
JOBS = 12
MANIFEST = {
  'level_text': 'Bounded model checking of the real instance manager code: every public operation is run once from an arbitrary valid state (0..3 live instances, symbolic ids/states/maxFileId satisfying the representation invariant) and must re-establish the invariant and agree with a list+dict reference on count, i-th instance/index, id look-up (incl. an arbitrary probe id), id freshness and maximum id. Because the invariant is re-established by every operation, histories of any length over states of <= 3(+1) instances are covered.',
  'level_note': 'Trusted: CBMC, ir2c translator (validated per run against a g++ build on sample states), vstd map model (association list). Assumes Delete is called with live nodes. Outside: more than 4 live instances, display lists, VerifyInstances, name look-up (EntityKeywordCount needs descriptors).',
  'technique': 'inductive-step bounded model checking (CBMC) of the IR-translated real InstMgr code from symbolic valid states; op code and state size forked per query',
  'design_ref': 'DESIGN.md section 2, C13',
}
