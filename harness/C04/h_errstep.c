/* C04-K1: one call of ERRORreport / ERRORreport_with_symbol (real error.c) from an ARBITRARY state:
 * symbolic error code over the whole table, symbolic override (suppression) bit of that entry, symbolic previous
 * value of ERRORoccurred; unbuffered mode.  Assert the verdict plumbing:
 *   - ERRORoccurred is monotone and becomes true exactly for an enabled diagnostic of severity >= ERROR;
 *   - an "ERROR PE" line is printed iff enabled && severity >= ERROR, a "WARNING PW" line iff enabled && WARNING;
 *   - EXIT-class diagnostics terminate the tool with a non-zero status, DUMP-class ones abort; nothing else does. */
#define VERIF_INPUTS(S,A) S(unsigned char,code) S(unsigned char,ovr) S(unsigned char,occ0) S(unsigned char,path)
#include "verif.h"
#include "src/express/error.c"
static int err_lines, warn_lines, exit_called, exit_status, abort_called;
static int starts(const char *f, const char *p) { int i; for(i = 0; p[i]; i++) if(f[i] != p[i]) return 0; return 1; }
#ifndef NATIVE
int fprintf(FILE *fp, const char *f, ...) { (void)fp; if(starts(f, "ERROR PE") || starts(f, "%s:%d: --ERROR PE")) err_lines++; if(starts(f, "WARNING PW") || starts(f, "%s:%d: WARNING PW")) warn_lines++; return 0; }
int vfprintf(FILE *fp, const char *f, va_list ap) { (void)fp; (void)f; (void)ap; return 0; }
int fputc(int c, FILE *fp) { (void)fp; return c; }
int vsnprintf(char *b, size_t n, const char *f, va_list ap) { (void)b; (void)n; (void)f; (void)ap; return 0; }   /* buffered path: not exercised here */
void exit(int s) { exit_called++; exit_status = s; }
void abort(void) { abort_called++; }
#endif
void EXPRESSusage(int x) { (void)x; }
int EXPRESS_fail(Express m) { (void)m; return 1; }
char *EXPRESSprogram_name = "harness";
#define NERR (sizeof LibErrors / sizeof LibErrors[0])
void harness(void) {
    Symbol sym; enum Severity sev; int enabled;
    VERIF_BEGIN();
    ASSUME(code >= 1 && code < NERR);
    ASSUME(LibErrors[code].message != 0);
    LibErrors[code].override = (ovr & 1);
    ERRORoccurred = (occ0 & 1);
    __ERROR_buffer_errors = false;
    current_filename = "f.exp"; sym.filename = current_filename; sym.line = 5; sym.name = "n"; sym.resolved = 0;
    sev = LibErrors[code].severity;
    enabled = !(ovr & 1) && code != SUBORDINATE_FAILED;
#ifdef NATIVE
    /* native replay cannot intercept exit/abort/stdio: only the flag is observable */
    ASSUME(sev < SEVERITY_EXIT);
    if(path & 1) ERRORreport_with_symbol(code, &sym, "x", 1, "y"); else ERRORreport(code, "x", 1, "y");
    CHECK((ERRORoccurred != 0) == ((occ0 & 1) || (enabled && sev >= SEVERITY_ERROR)), "ERRORoccurred is set exactly by enabled diagnostics of severity >= ERROR (and never cleared)");
#else
    if(path & 1) ERRORreport_with_symbol(code, &sym, "x", 1, "y"); else ERRORreport(code, "x", 1, "y");
    CHECK((ERRORoccurred != 0) == ((occ0 & 1) || (enabled && sev >= SEVERITY_ERROR)), "ERRORoccurred is set exactly by enabled diagnostics of severity >= ERROR (and never cleared)");
    CHECK(err_lines == ((enabled && sev >= SEVERITY_ERROR) ? 1 : 0), "an ERROR line is printed iff the diagnostic is enabled and of severity >= ERROR");
    CHECK(warn_lines == ((enabled && sev == SEVERITY_WARNING) ? 1 : 0), "a WARNING line is printed iff the diagnostic is an enabled warning");
    if(enabled && sev >= SEVERITY_DUMP) CHECK(abort_called == 1, "DUMP-class diagnostics abort");
    else if(enabled && sev >= SEVERITY_EXIT) CHECK(exit_called == 1 && exit_status != 0, "EXIT-class diagnostics end the tool with a non-zero status");
    else CHECK(exit_called == 0 && abort_called == 0, "no other diagnostic terminates the tool");
#endif
    VERIF_END();
}
