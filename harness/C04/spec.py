from vrun import H
import importlib.util as _u
_sp = _u.spec_from_file_location('c04slice', '/verif/harness/C04/slice.py'); c04slice = _u.module_from_spec(_sp); _sp.loader.exec_module(c04slice)
LEVEL_TEXT = ('Bounded model checking (CBMC) of the verdict plumbing shared by check-express, exppp, exp2cxx and exp2python: error reporting step (error.c), '
  'main() phase gating (fedex.c) and duplicate-declaration detection (dict.c/hash.c), compiled by goto-cc with the flags of the real build.')
HARNESSES = [
  H('dict_define', 'c', 'harness/C04/h_dict.c', repo_srcs=['src/express/dict.c', 'src/express/hash.c'], models=['lib/cmodels/printf_null.c'], unwind=10,
    unwindset=['HASHcreate.1:3', 'HASHcreate.0:3'],
    bounds='two names of 1..2 bytes over {a b Z}, object types in {entity, type, enum item, function} symbolic; table of 8 buckets (one 256-slot segment)',
    stubs=['pool allocator (alloc.c) replaced by calloc', 'ERRORreport*: record code and arguments'],
    out_of_claim='resolver passes on parser-built ASTs, names longer than 2 bytes (hash arithmetic), table growth (HASHexpand_table)'),
  H('inherited_attr', 'c', 'harness/C04/h_inhattr.c', tracked=['src/express/resolve.c', 'src/express/entity.c'], cflags=['-fno-builtin'], shadow_scope=True, pregen=c04slice.pregen,
    unwind=8, object_bits=10, no_checks=True,
    bounds='three-level entity chain grand <- parent <- child, one plain attribute each, names symbolic over {x y z} (1 byte)',
    stubs=['VARget_simple_name: plain-declaration branch', 'VAR_resolve_expressions/TYPEresolve_expressions/EXP_resolve/WHEREresolve/DICTdo: empty (expression resolution is not the subject)', 'ERRORreport_with_symbol: records the code', 'shadow express headers', 'functions sliced verbatim from resolve.c / entity.c per run'],
    out_of_claim='redeclarations (SELF\\super.attr), multiple supertypes, deeper chains, the other resolver checks'),
  H('error_step', 'c', 'harness/C04/h_errstep.c', tracked=['src/express/error.c'], cflags=['-I/repo'], unwind=20,
    bounds='error code symbolic over the whole table (78 entries), suppression bit, previous ERRORoccurred, entry point (ERRORreport / ERRORreport_with_symbol) symbolic; unbuffered mode',
    stubs=['fprintf/vfprintf/fputc: classify the line prefix', 'exit/abort: record status and return'],
    out_of_claim='buffered mode heap (see C20 report harnesses, thorough tier), message text'),
] + [
  H('main_gating_r%d' % nr, 'c', 'harness/C04/h_main.c', tracked=['src/express/fedex.c'], cflags=['-I/repo'], models=['lib/cmodels/printf_null.c'], unwind=20, native=False, defs={'NORESOLVE': nr},
    bounds='main(argc, argv) with argv = tool [-r] x.exp; parse/resolve/back-end stubs raise ERRORoccurred under three symbolic bits; back end present or absent',
    stubs=['EXPRESSparse/EXPRESSresolve/back end: set ERRORoccurred nondeterministically and record the call order', 'EXPRESS_fail/EXPRESS_succeed: default behaviour (1 / 0)'],
    out_of_claim='the phases themselves (parser, resolver passes), option handling beyond -r, tool-specific back ends') for nr in (0, 1)
]
JOBS = 8
MANIFEST = {
  'level_text': 'Bounded model checking of the verdict plumbing all four EXPRESS tools share: (1) one diagnostic of ANY code from any state sets ERRORoccurred / prints ERROR vs WARNING / exits exactly as its severity and suppression bit say; (2) the real main() returns non-zero exactly when a phase raised an error and never resolves or generates after a failed phase; (3) DICTdefine reports a redeclaration exactly for equal names (enumeration-overload rule as coded). The resolver passes and the grammar are not encoded.',
  'level_note': 'Trusted: CBMC, harness stubs of the three phases and of stdio/exit. Outside the claim: which schemas the parser/resolver reject (undefined references, cycles, missing supertypes), agreement of the four tools beyond sharing main().',
  'technique': 'CBMC bounded model checking of goto-cc-compiled error.c / fedex.c main() / dict.c+hash.c with symbolic error codes, phase outcomes and names',
  'design_ref': 'DESIGN.md section 2, C04',
}
