/* C04-K3 / C12-K2: DICTdefine (dict.c) over the real hash table (hash.c).
 *  - duplicate detection: defining two symbolic names (<= 2 bytes each) with symbolic object types in one scope:
 *    the second definition reports DUPLICATE_DECL exactly when the names are equal and the enumeration-overload rule as
 *    coded does not apply; unequal names never report; look-up returns what was defined.
 *  - determinism (C12): two dictionaries filled with the same keys (elements at different addresses) iterate in the same order. */
#define VERIF_INPUTS(S,A) A(char,k1,3) A(char,k2,3) S(unsigned char,t1) S(unsigned char,t2)
#include "verif.h"
#include <stdlib.h>
#include <string.h>
#include <stdarg.h>
#include "express/expbasic.h"
#include "express/hash.h"
#include "express/dict.h"
#include "express/error.h"
struct freelist_head HASH_Table_fl, HASH_Element_fl;
void *ALLOC_new(struct freelist_head *flh) { void *p = calloc(1, (size_t)flh->size_elt); ASSUME(p != 0); return p; }   /* stated stub: pool allocator -> calloc */
void ALLOC_destroy(struct freelist_head *flh, Freelist *l) { (void)flh; free(l); }
void ERRORnospace(void) { ASSUME(0); }
static int dup_reports, sub_reports; static const char *dup_name;
void ERRORreport_with_symbol(enum ErrorCode c, Symbol *s, ...) { va_list ap; va_start(ap, s); if(c == DUPLICATE_DECL || c == DUPLICATE_DECL_DIFF_FILE) { dup_reports++; dup_name = va_arg(ap, const char *); } va_end(ap); }
void ERRORreport(enum ErrorCode c, ...) { if(c == SUBORDINATE_FAILED) sub_reports++; }
static int letter(char c) { return c == 'a' || c == 'b' || c == 'Z'; }
static int okty(unsigned char t) { return t == OBJ_ENTITY || t == OBJ_TYPE || t == OBJ_ENUM || t == OBJ_FUNCTION; }
void harness(void) {
    Dictionary d, d2; Symbol s1, s2; int r1, r2, o1, o2, eq; DictionaryEntry de, de2; void *x, *y; char order1[2], order2[2]; int n1 = 0, n2 = 0;
    VERIF_BEGIN();
    k1[2] = 0; k2[2] = 0;
    ASSUME(letter(k1[0]) && (k1[1] == 0 || letter(k1[1])));
    ASSUME(letter(k2[0]) && (k2[1] == 0 || letter(k2[1])));
    ASSUME(okty(t1) && okty(t2));
    HASH_Table_fl.size_elt = sizeof(struct Hash_Table_); HASH_Element_fl.size_elt = sizeof(struct Element_);
    s1.filename = "f.exp"; s1.line = 3; s1.name = k1; s2.filename = "f.exp"; s2.line = 9; s2.name = k2;
    d = DICTcreate(8);
    r1 = DICTdefine(d, k1, &o1, &s1, (char)t1);
    r2 = DICTdefine(d, k2, &o2, &s2, (char)t2);
    eq = (k1[0] == k2[0] && k1[1] == k2[1]);
    OBS("k1=%s k2=%s t1=%c t2=%c r1=%d r2=%d dups=%d", k1, k2, t1, t2, r1, r2, dup_reports);
    CHECK(r1 == 0, "first definition in an empty scope succeeds");
    if(!eq) { CHECK(r2 == 0 && dup_reports == 0, "different names never clash");
              CHECK(DICTlookup(d, k1) == &o1 && DICTlookup(d, k2) == &o2, "each name looks up its own object"); }
    else {
        int both_enum = (t1 == OBJ_ENUM && t2 == OBJ_ENUM), both_nonenum = (t1 != OBJ_ENUM && t2 != OBJ_ENUM);
        if(both_nonenum) { CHECK(r2 == 1 && dup_reports == 1 && sub_reports == 1, "redeclaration of a name in one scope is reported as an error"); CHECK(dup_name == k2, "the diagnostic names the redeclared identifier"); }
        else CHECK(r2 == 0 && dup_reports == 0, "enumeration items may share a name with another declaration (rule as coded)");
        (void)both_enum;
        CHECK(DICTlookup(d, k1) == &o1 || both_enum, "the first declaration stays visible");
    }
#ifdef WITH_ORDER
    /* C12: iteration order is a function of the keys only */
    d2 = DICTcreate(8);
    DICTdefine(d2, k1, &o2, &s1, (char)t1);
    if(!eq) DICTdefine(d2, k2, &o1, &s2, (char)t2);
    DICTdo_init(d, &de); DICTdo_init(d2, &de2);
    while(n1 < 2 && (x = DICTdo(&de)) != 0) order1[n1++] = (x == (void *)&o1) ? 1 : 2;
    while(n2 < 2 && (y = DICTdo(&de2)) != 0) order2[n2++] = (y == (void *)&o2) ? 1 : 2;
    CHECK(n1 == n2, "both dictionaries list the same number of entries");
    if(n1 == 2) CHECK(order1[0] == order2[0] && order1[1] == order2[1], "iteration order depends on the keys only, not on addresses");
#endif
    VERIF_END();
}
