/* C04-K2: the real main() of src/express/fedex.c (shared by check-express, exppp, exp2cxx, exp2python) with the three
 * phases replaced by stubs that nondeterministically raise ERRORoccurred and record being called.
 * Assert: exit status != 0 exactly when some phase raised an error; resolution never runs after a failed parse and the
 * back end never runs after a failed parse/resolve (no output artefact presented as success); success path only when clean. */
#define VERIF_INPUTS(S,A) S(unsigned char,perr) S(unsigned char,rerr) S(unsigned char,berr) S(unsigned char,has_backend) S(unsigned char,noresolve)
#include "verif.h"
#define main fedex_main
#include "src/express/fedex.c"
#undef main
bool ERRORoccurred; int ERRORdebugging, debug, print_objects_while_running; void (*ERRORusage_function)(void); bool __ERROR_buffer_errors;
char *EXPRESSprogram_name; void (*EXPRESSinit_args)(int, char **); void (*EXPRESSinit_parse)(void); int (*EXPRESSgetopt)(int, char *); void (*EXPRESSbackend)(Express);
int (*EXPRESSfail)(Express); int (*EXPRESSsucceed)(Express); char *input_filename_dummy;
static int called_parse, called_resolve, called_backend, order_ok = 1, fail_called, succeed_called;
void EXPRESSinit_init(void) {} void EXPRESSinitialize(void) {} void EXPRESScleanup(void) {} void EXPRESSdestroy(Express m) { (void)m; }
void EXPRESSusage(int x) { (void)x; ASSUME(0); }
void ERRORset_warning(char *n, bool w) { (void)n; (void)w; } void ERRORset_all_warnings(bool w) { (void)w; }
void ERROR_start_message_buffer(void) {} void ERROR_flush_message_buffer(void) {}
static struct Scope_ model_obj;
Express EXPRESScreate(void) { return &model_obj; }
void EXPRESSparse(Express m, FILE *fp, char *fn) { (void)m; (void)fp; (void)fn; called_parse++; if(perr & 1) ERRORoccurred = true; }
void EXPRESSresolve(Express m) { (void)m; if(!called_parse || ERRORoccurred) order_ok = 0; called_resolve++; if(rerr & 1) ERRORoccurred = true; }
static void backend(Express m) { (void)m; if(!called_parse || ERRORoccurred) order_ok = 0; called_backend++; if(berr & 1) ERRORoccurred = true; }
int EXPRESS_fail(Express m) { (void)m; fail_called++; return 1; }
int EXPRESS_succeed(Express m) { (void)m; succeed_called++; return 0; }
void harness(void) {
    char *argv[4]; int argc, rc, any;
    VERIF_BEGIN();
    noresolve = NORESOLVE;   /* forked per query: argv stays concrete */
    argv[0] = "tool"; argc = 2;
    if(noresolve & 1) { argv[1] = "-r"; argv[2] = "x.exp"; argv[3] = 0; argc = 3; } else { argv[1] = "x.exp"; argv[2] = 0; }
    EXPRESSbackend = (has_backend & 1) ? backend : 0;
    rc = fedex_main(argc, argv);
    any = (perr & 1) || (!(perr & 1) && !(noresolve & 1) && (rerr & 1)) || (!(perr & 1) && ((noresolve & 1) || !(rerr & 1)) && (has_backend & 1) && (berr & 1));
    OBS("rc=%d parse=%d resolve=%d backend=%d", rc, called_parse, called_resolve, called_backend);
    CHECK((rc != 0) == (any != 0), "exit status is non-zero exactly when an error was raised by some phase");
    CHECK(order_ok, "resolution and the back end never run after an earlier phase failed");
    CHECK(called_parse == 1, "the input is parsed exactly once");
    CHECK(succeed_called == (any ? 0 : 1) && fail_called == (any ? 1 : 0), "success is reported only on the clean path");
    if((perr & 1)) CHECK(called_resolve == 0 && called_backend == 0, "nothing is generated from a file that failed to parse");
    VERIF_END();
}
