/* C04-K4: "inherited attribute re-declared" -- ENTITYresolve_expressions (src/express/resolve.c) with its two look-up
 * helpers (ENTITY_get_local_attribute, ENTITYget_named_attribute of entity.c), sliced verbatim from /repo per run.
 * A three-level chain grand <- parent <- child, one plainly declared attribute each, the three names symbolic:
 * resolving child reports OVERLOADED_ATTR and marks the attribute failed exactly when child's name equals the name of an
 * attribute of ANY ancestor (direct or not). Expression/type/where resolution are empty stubs (not the subject). */
#define VERIF_INPUTS(S,A) A(char,gn,2) A(char,pn,2) A(char,cn,2)
#include "verif.h"
#include <stdio.h>
#include <string.h>
#include <stdarg.h>
#include "express/express.h"
#include "express/entity.h"
#include "express/variable.h"
#include "express/resolve.h"
int print_objects_while_running, EXPRESSpass; Type self;
static int overloaded, other;
void ERRORreport_with_symbol(enum ErrorCode c, Symbol *s, ...) { (void)s; if(c == OVERLOADED_ATTR) overloaded++; else other++; }
char *VARget_simple_name(Variable v) { return v->name->symbol.name; }   /* stated stub: the non-redeclaration branch of variable.c */
Entity ENTITYfind_inherited_entity(Entity e, char *n, int d) { (void)e; (void)n; (void)d; ASSUME(0); return 0; }
void VAR_resolve_expressions(Variable v, Entity e) { (void)v; (void)e; }
void TYPEresolve_expressions(Type t, Scope s) { (void)t; (void)s; }
void EXP_resolve(Expression x, Scope s, Type t) { (void)x; (void)s; (void)t; }
int WHEREresolve(Linked_List l, Scope s, int n) { (void)l; (void)s; (void)n; return 1; }
void HASHlistinit_by_type(Hash_Table d, HashEntry *de, char t) { (void)d; (void)de; (void)t; }
void *DICTdo(DictionaryEntry *de) { (void)de; return 0; }
#include "resolve_slice.h"
struct ty { struct Scope_ t; struct TypeHead_ h; struct TypeBody_ b; };
struct ent { struct Scope_ s; struct Entity_ e; struct Variable_ v; struct Expression_ x; struct Linked_List_ al, sl; struct Link_ am, an, sm, sn; };
static struct ty ty_id; static struct ent G, P, C;
static void mk(struct ent *n, char *aname, char *ename, struct ent *super) {
    n->s.u.entity = &n->e; n->s.symbol.name = ename;
    n->x.symbol.name = aname; n->x.type = &ty_id.t; n->v.name = &n->x;
    n->al.mark = &n->am; n->am.next = &n->an; n->an.prev = &n->am; n->an.next = &n->am; n->am.prev = &n->an; n->an.data = &n->v; n->e.attributes = &n->al;
    n->sl.mark = &n->sm;
    if(super) { n->sm.next = &n->sn; n->sn.prev = &n->sm; n->sn.next = &n->sm; n->sm.prev = &n->sn; n->sn.data = &super->s; }
    else { n->sm.next = &n->sm; n->sm.prev = &n->sm; }
    n->e.supertypes = &n->sl;
}
static int ok(char *s) { return (s[0] == 'x' || s[0] == 'y' || s[0] == 'z') && s[1] == 0; }
void harness(void) {
    int inherited;
    VERIF_BEGIN();
    gn[1] = 0; pn[1] = 0; cn[1] = 0;
    ASSUME(ok(gn) && ok(pn) && ok(cn) && gn[0] != pn[0]);   /* grand <- parent is itself well-formed */
    ty_id.t.u.type = &ty_id.h; ty_id.h.body = &ty_id.b; ty_id.b.type = integer_;
    mk(&G, gn, "grand", 0); mk(&P, pn, "parent", &G); mk(&C, cn, "child", &P);
    inherited = (cn[0] == pn[0]) || (cn[0] == gn[0]);
    ENTITYresolve_expressions(&C.s);
    OBS("grand.%s parent.%s child.%s overloaded=%d failed=%d", gn, pn, cn, overloaded, C.x.symbol.resolved & RESOLVE_FAILED);
    CHECK(other == 0, "no other diagnostic for plain declarations");
    CHECK((overloaded >= 1) == inherited, "re-declaring an attribute of ANY ancestor is reported (and nothing else is)");
    CHECK(((C.s.symbol.resolved & RESOLVE_FAILED) != 0) == inherited, "the entity is marked failed exactly then (so every tool exits non-zero)");
    VERIF_END();
}
