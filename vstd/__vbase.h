#ifndef VBASE_H
#define VBASE_H
#include <stddef.h>
#include <string.h>
#include <stdlib.h>
#include <stdio.h>
#include <ctype.h>
extern "C" void __verif_bound_exceeded(void);   /* model capacity exceeded: path cut (assume false) */
extern "C" double __verif_strtod(const char *s, int n, int *ok); /* uninterpreted: libc decimal->double */
extern "C" int __verif_fmt_double(char *out, int cap, double v, int prec); /* uninterpreted */
#ifndef VSTR_CAP
#define VSTR_CAP 24
#endif
#ifndef VSTREAM_CAP
#define VSTREAM_CAP 24
#endif
#ifndef VOSTREAM_CAP
#define VOSTREAM_CAP (VSTREAM_CAP*2)
#endif
#ifndef VCONT_CAP
#define VCONT_CAP 6
#endif
#endif
