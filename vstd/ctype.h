#ifndef VCTYPE_H
#define VCTYPE_H
/* C-locale model of <ctype.h>; shadows glibc's table-driven macros */
#ifdef __cplusplus
extern "C" {
#endif
static inline int isdigit(int c){ return c>='0'&&c<='9'; }
static inline int isspace(int c){ return c==' '||(c>=9&&c<=13); }
static inline int isupper(int c){ return c>='A'&&c<='Z'; }
static inline int islower(int c){ return c>='a'&&c<='z'; }
static inline int isalpha(int c){ return isupper(c)||islower(c); }
static inline int isalnum(int c){ return isalpha(c)||isdigit(c); }
static inline int isxdigit(int c){ return isdigit(c)||(c>='a'&&c<='f')||(c>='A'&&c<='F'); }
static inline int isprint(int c){ return c>=32&&c<127; }
static inline int ispunct(int c){ return isprint(c)&&!isalnum(c)&&c!=' '; }
static inline int toupper(int c){ return islower(c)?c-32:c; }
static inline int tolower(int c){ return isupper(c)?c+32:c; }
#ifdef __cplusplus
}
#endif
#endif
