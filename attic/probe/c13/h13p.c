#include <assert.h>
#include <stdlib.h>
void w_init(int); void w_prestate(int,int,int,int,int); int w_append(int,int); int w_delete(int); int w_count(void); int w_find(int); int w_at(int); int w_max(void);
int nondet_int(void);
void *_Znwm(unsigned long n){ void *p = calloc(1,n); __CPROVER_assume(p!=0); return p; }
void *_Znam(unsigned long n){ void *p = calloc(1,n); __CPROVER_assume(p!=0); return p; }
void _ZdlPv(void*p){ free(p); } void _ZdaPv(void*p){ free(p); }
void __verif_bound_exceeded(void){ __CPROVER_assume(0); }
void *_ZTVN10__cxxabiv120__si_class_type_infoE[8]; void *_ZTVN10__cxxabiv117__class_type_infoE[8]; void *_ZTVN10__cxxabiv121__vmi_class_type_infoE[8];
#ifndef NPRE
#define NPRE 2
#endif
void harness(void){
  w_init(0);
  int id[3]; for(int i=0;i<3;i++){ id[i]=nondet_int(); __CPROVER_assume(id[i]>=1&&id[i]<=1000000); }
  __CPROVER_assume(id[0]!=id[1]&&id[1]!=id[2]&&id[0]!=id[2]);
  int mx=nondet_int(); __CPROVER_assume(mx<=2000000); for(int i=0;i<NPRE;i++) __CPROVER_assume(mx>=id[i]);
  w_prestate(NPRE,id[0],id[1],id[2],mx);
#if OP==0
  int nid=nondet_int(); __CPROVER_assume(nid>=0&&nid<=1000000);
  int got=w_append(NPRE,nid);
  int dup=0; for(int i=0;i<NPRE;i++) if(id[i]==nid) dup=1;
  if(nid!=0&&!dup) assert(got==nid); else { assert(got>mx); }
  assert(w_count()==NPRE+1); assert(w_at(NPRE)==NPRE); assert(w_find(got)==NPRE);
  for(int i=0;i<NPRE;i++){ assert(w_at(i)==i); assert(w_find(id[i])==i); }
  assert(w_max()>=got && w_max()>=mx);
#else
  int r=w_delete(DEL); assert(r==1); assert(w_count()==NPRE-1);
  assert(w_find(id[DEL])==-1);
  int j=0; for(int i=0;i<NPRE;i++){ if(i==DEL) continue; assert(w_at(j)==i); assert(w_find(id[i])==i); j++; }
#endif
#ifdef WITNESS
  assert(0);
#endif
}
