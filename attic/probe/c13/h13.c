#include <assert.h>
#include <stdlib.h>
void w_init(int); int w_append(int,int); int w_delete(int); int w_count(void); int w_find(int); int w_at(int); int w_max(void);
int nondet_int(void);
void *_Znwm(unsigned long n){ void *p = calloc(1,n); __CPROVER_assume(p!=0); return p; }
void *_Znam(unsigned long n){ void *p = calloc(1,n); __CPROVER_assume(p!=0); return p; }
void _ZdlPv(void*p){ free(p); } void _ZdaPv(void*p){ free(p); }
void __verif_bound_exceeded(void){ __CPROVER_assume(0); }
void *_ZTVN10__cxxabiv120__si_class_type_infoE[8]; void *_ZTVN10__cxxabiv117__class_type_infoE[8]; void *_ZTVN10__cxxabiv121__vmi_class_type_infoE[8];
#ifndef K
#define K 3
#endif
/* reference model: live list in insertion order */
static int live_pi[8], live_id[8], nlive, seenmax;
static int ref_find(int id){ for(int i=0;i<nlive;i++) if(live_id[i]==id) return live_pi[i]; return -1; }
static int in_list(int pi){ for(int i=0;i<nlive;i++) if(live_pi[i]==pi) return 1; return 0; }
void harness(void){
  w_init(0); nlive=0; seenmax=-1;
  for(int s=0;s<K;s++){
    int op=nondet_int(), pi=nondet_int(), id=nondet_int();
    __CPROVER_assume(op>=0&&op<2&&pi>=0&&pi<3&&id>=0&&id<=5);
    if(op==0){ /* append */
      if(in_list(pi)) continue; /* same instance twice handled separately */
      int got=w_append(pi,id);
      assert(got>0);
      if(id!=0 && ref_find(id)<0) assert(got==id); else assert(got>seenmax && ref_find(got)<0);
      live_pi[nlive]=pi; live_id[nlive]=got; nlive++; if(got>seenmax) seenmax=got;
    } else { /* delete by instance */
      int was=in_list(pi); if(!was) continue;
      int r=w_delete(pi); assert(r==1);
      int j=0; for(int i=0;i<nlive;i++){ if(live_pi[i]!=pi){ live_pi[j]=live_pi[i]; live_id[j]=live_id[i]; j++; } } nlive=j;
    }
    assert(w_count()==nlive);
    for(int i=0;i<3;i++){ if(i<nlive) assert(w_at(i)==live_pi[i]); }
    int probe=nondet_int(); __CPROVER_assume(probe>=0&&probe<=8);
    assert(w_find(probe)==ref_find(probe));
    assert(w_max()>=seenmax || nlive==0);
  }
#ifdef WITNESS
  assert(0);
#endif
}
