#include "clstepcore/instmgr.h"
#include "clstepcore/sdai.h"
namespace std { istream cin; ostream cout, cerr, clog; }
static InstMgr *im;
static SDAI_Application_instance *pool[3];
extern "C" {
__attribute__((noinline)) void w_init(int owns) { im = new InstMgr(owns); for (int i = 0; i < 3; i++) pool[i] = (SDAI_Application_instance*)calloc(1, sizeof(SDAI_Application_instance)); }
__attribute__((noinline)) int w_append(int pi, int id) { pool[pi]->StepFileId(id); MgrNode *mn = im->Append(pool[pi], completeSE); return mn ? pool[pi]->StepFileId() : -1; }
__attribute__((noinline)) int w_delete(int pi) { MgrNode *mn = im->FindFileId(pool[pi]->StepFileId()); if (!mn || mn->GetApplication_instance() != pool[pi]) return 0; im->Delete(mn); pool[pi] = (SDAI_Application_instance*)calloc(1, sizeof(SDAI_Application_instance)); return 1; }
__attribute__((noinline)) int w_count() { return im->InstanceCount(); }
__attribute__((noinline)) int w_find(int id) { MgrNode *mn = im->FindFileId(id); if (!mn) return -1; for (int i = 0; i < 3; i++) if (mn->GetApplication_instance() == pool[i]) return i; return -2; }
__attribute__((noinline)) int w_at(int idx) { MgrNode *mn = im->GetMgrNode(idx); if (!mn) return -1; if (im->GetIndex(mn) != idx) return -3; for (int i = 0; i < 3; i++) if (mn->GetApplication_instance() == pool[i]) return i; return -2; }
__attribute__((noinline)) int w_max() { return im->MaxFileId(); }
}
