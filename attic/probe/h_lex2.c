#include <string.h>
extern int SCANprocess_semicolon( const char * yytext, int commentp );
unsigned nondet_uint(void);
#define N 300
void harness_semicolon(void) {
    char buf[N+1];
    unsigned len = nondet_uint();
    __CPROVER_assume(len >= 4 && len <= N);
    memset(buf, 'x', N);
    buf[0] = ';'; buf[1]=' '; buf[2]='-'; buf[3]='-';
    buf[len] = 0;
    SCANprocess_semicolon(buf, 1);
}
