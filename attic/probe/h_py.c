#include <stdlib.h>
#include <string.h>
#include <assert.h>
struct Symbol_ { char *name; const char *filename; int line; char resolved; };
/* minimal fake Expression/Variable matching express headers is done via real headers in the real harness; here just call with real types */
