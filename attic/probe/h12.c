#include <stdio.h>
#include <stdarg.h>
#include <assert.h>
#include <stdlib.h>
#include "express/expr.h"
#include "express/type.h"
extern void AGGRprint_bound( FILE * header, FILE * impl, const char * var_name, const char * aggr_name, const char * cname, Expression bound, int boundNr );
static int cap_vals[4]; static int cap_n; static const char *cap_fmt[4];
int fprintf(FILE*fp,const char*f,...){ va_list ap; va_start(ap,f); if(cap_n<4){ cap_fmt[cap_n]=f; /* "%s->SetBound%d( %d );" : args: char*, int, int */
   const char*a0=va_arg(ap,const char*); int a1=va_arg(ap,int); int a2=va_arg(ap,int); cap_vals[cap_n]=a2; cap_n++; } va_end(ap); return 0; }
char *EXPRto_string(Expression e){ __CPROVER_assume(0); return 0; }
int nondet_int(void); void *nondet_ptr(void);
struct Scope_ tf_obj; 
void harness(void){
  /* two runs: same schema-level content, different addresses */
  struct Expression_ e1, e2; struct Scope_ ty1;
  int is_int_literal = nondet_int()&1; int n = nondet_int();
  e1.symbol.resolved = 1; e2.symbol.resolved = 1;
  e1.type = &ty1; e2.type = &ty1;           /* not Type_Funcall */
  __CPROVER_assume(Type_Funcall != &ty1);
  if(is_int_literal){ e1.u.integer = n; e2.u.integer = n; }
  else { e1.u.entity = nondet_ptr(); e2.u.entity = nondet_ptr(); }   /* non-integer payload: an address, differs between runs */
  cap_n=0; AGGRprint_bound(0,(FILE*)1,"t","a","C",&e1,1); int v1=cap_vals[0];
  cap_n=0; AGGRprint_bound(0,(FILE*)1,"t","a","C",&e2,1); int v2=cap_vals[0];
  assert(v1==v2);
}
