#!/bin/bash
# usage: build2.sh <out.c> <extra clang flags...>
out=$1; shift
F="-std=c++11 -nostdinc++ -isystem /tmp/probe/stubcxx -O1 -fno-exceptions -fno-rtti -fno-vectorize -fno-slp-vectorize -fno-unroll-loops -fno-threadsafe-statics -S -emit-llvm -I/repo/include -I/repo/_build/include $@"
set -e
for f in clutils/Str clstepcore/read_func cldai/sdaiString; do clang++-14 $F /repo/src/$f.cc -o $(basename $f).ll; done
clang++-14 $F errordesc_stub.cc -o errordesc_stub.ll; clang++-14 $F wrap1.cc -o wrap1.ll
llvm-link-14 -S wrap1.ll read_func.ll Str.ll errordesc_stub.ll sdaiString.ll -o all2.ll
opt-14 -S -internalize -internalize-public-api-list=w_ReadReal,w_ReadInteger,w_GetLiteralStr -globaldce all2.ll -o all2s.ll
python3 ir2c.py all2s.ll > $out
