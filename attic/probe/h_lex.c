#include <string.h>
#include <assert.h>
extern int SCANprocess_semicolon( const char * yytext, int commentp );
extern void SCANsave_comment( const char * yytext );
unsigned nondet_uint(void);
char nondet_char(void);
#ifndef N
#define N 300
#endif
void harness_semicolon(void) {
    char buf[N+1];
    unsigned len = nondet_uint();
    __CPROVER_assume(len >= 4 && len <= N);
    for (unsigned i = 0; i < N; i++) { buf[i] = nondet_char(); }
    buf[len] = 0;
    for (unsigned i = 0; i < N; i++) { if (i < len) __CPROVER_assume(buf[i] != 0); }
    __CPROVER_assume(buf[0] == ';' && buf[1] == ' ' && buf[2]=='-' && buf[3]=='-');
    SCANprocess_semicolon(buf, 1);
}
