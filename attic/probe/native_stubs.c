#include <stdlib.h>
#include <stdio.h>
#include <string.h>
void __verif_bound_exceeded(void){ fprintf(stderr,"BOUND\n"); exit(3); }
double __verif_strtod(const char*s,int n,int*ok){ char b[64]; memcpy(b,s,n); b[n]=0; *ok=1; return strtod(b,0); }
int __verif_fmt_double(char*o,int cap,double v,int prec){ return snprintf(o,cap,"%.*g",prec,v); }
int __cxa_atexit(void*a,void*b,void*c){return 0;}
void _ZN12SDAI_BOOLEANC1EPc(void*a,void*b){} void _ZN12SDAI_BOOLEAND1Ev(void*a){} void _ZN12SDAI_LOGICALC1EPKc(void*a,void*b){} void _ZN12SDAI_LOGICALD1Ev(void*a){}
int w_ReadReal(const char *s, const char *delims, double *val, int *sev, long *pos, int *state);
int w_ReadInteger(const char *s, const char *delims, long *val, int *sev, long *pos, int *state);
int w_GetLiteralStr(const char *s, char *out, int cap, int *sev, long *pos);
int main(int argc,char**argv){ for(int i=1;i<argc;i++){ double d; long l,pos; int sev,st; int r=w_ReadReal(argv[i],",)",&d,&sev,&pos,&st); printf("R[%s] r=%d v=%.15g sev=%d pos=%ld\n",argv[i],r,d,sev,pos);
 r=w_ReadInteger(argv[i],",)",&l,&sev,&pos,&st); printf("I[%s] r=%d v=%ld sev=%d pos=%ld\n",argv[i],r,l,sev,pos);
 char out[64]; r=w_GetLiteralStr(argv[i],out,64,&sev,&pos); printf("S[%s] r=%d v=[%s] sev=%d pos=%ld\n",argv[i],r,out,sev,pos);} }
double SDAI_REAL_NULL = 1.17549435082229e-38;
