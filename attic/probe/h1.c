#include <assert.h>
int w_ReadInteger(const char *s, const char *delims, long *val, int *sev, long *pos, int *state);
int w_ReadReal(const char *s, const char *delims, double *val, int *sev, long *pos, int *state);
char nondet_char(void);
void __verif_bound_exceeded(void){ __CPROVER_assume(0); }
double nondet_double(void); int nondet_int(void);
double __verif_strtod(const char*s,int n,int*ok){ *ok = nondet_int() & 1; return nondet_double(); }
int __verif_fmt_double(char*o,int cap,double v,int prec){ return 0; }
#ifndef N
#define N 5
#endif
/* alphabet: digits, sign, '.', 'E', ',', ')', ' ' , 'x' */
static int inalpha(char c){ return (c>='0'&&c<='9')||c=='+'||c=='-'||c=='.'||c=='E'||c==','||c==')'||c==' '||c=='x'; }
void harness_int(void) {
  char buf[N+1]; int len = nondet_int(); __CPROVER_assume(len>=0 && len<=N);
  for (int i=0;i<N;i++){ buf[i]=nondet_char(); if (i<len) __CPROVER_assume(inalpha(buf[i])); }
  buf[len]=0;
  long v=12345; int sev, st; long pos;
  int r = w_ReadInteger(buf, ",)", &v, &sev, &pos, &st);
  /* property: the delimiter is never consumed: everything before pos contains no delimiter unless error */
  if (sev == 3) { for (int i=0;i<N;i++) if (i<pos) assert(buf[i]!=',' && buf[i]!=')'); }
  /* all-digit token => assigned with exact value */
  int alld = len>0; for (int i=0;i<N;i++) if (i<len && !(buf[i]>='0'&&buf[i]<='9')) alld=0;
  if (alld) { long ref=0; for (int i=0;i<N;i++) if (i<len) ref=ref*10+(buf[i]-'0'); assert(r==1 && v==ref && sev==3); }
#ifdef WITNESS
  assert(0);
#endif
}
