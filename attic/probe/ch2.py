import sys
sys.path.insert(0,'/repo/src/exp2python/python')
from stepcode.AggregationDataTypes import SET
from stepcode.SimpleDataTypes import INTEGER
from typing import List

def set_ops(b2: int, vals: List[int]) -> int:
    '''
    pre: 0 <= b2 <= 3
    pre: len(vals) <= 3
    pre: all(0 <= v <= 2 for v in vals)
    post: __return__ == 0
    '''
    s = SET(0, b2, INTEGER)
    ref = set()
    bad = 0
    for v in vals:
        ok = True
        try:
            s.add(INTEGER(v))
        except AssertionError:
            ok = False
        allowed = (v in ref) or (len(ref) < b2)
        if ok != allowed:
            bad += 1
        if ok:
            ref.add(v)
        if int(s.get_size()) != len(ref):
            bad += 1
    return bad
