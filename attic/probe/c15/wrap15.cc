#include "clstepcore/STEPattribute.h"
#include "clstepcore/ExpDict.h"
#include "clstepcore/sdai.h"
#include <sstream>
namespace std { istream cin; ostream cout, cerr, clog; }
static char owner_raw[sizeof(EntityDescriptor)] __attribute__((aligned(16)));
extern "C" {
__attribute__((noinline)) int w_attr_int(const char *text, int optional, int strict, long *val, long *pos) {
    TypeDescriptor td("Integer", INTEGER_TYPE, "Integer");
    AttrDescriptor ad("a", &td, optional ? LTrue : LFalse, LFalse, AttrType_Explicit, *(EntityDescriptor *)owner_raw);
    SDAI_Integer v = 77;
    STEPattribute attr(ad, &v);
    std::istringstream in(text);
    Severity s = attr.STEPread(in, 0, 0, 0, strict != 0);
    *val = v; *pos = in.pos;
    return (int)s;
}
}
