#include <assert.h>
#include <stdlib.h>
int w_attr_int(const char *text, int optional, int strict, long *val, long *pos);
int nondet_int(void); char nondet_char(void); double nondet_double(void);
void *_Znwm(unsigned long n){ void *p = calloc(1,n); __CPROVER_assume(p!=0); return p; }
void *_Znam(unsigned long n){ void *p = calloc(1,n); __CPROVER_assume(p!=0); return p; }
void _ZdlPv(void*p){ free(p); } void _ZdaPv(void*p){ free(p); }
void __verif_bound_exceeded(void){ __CPROVER_assume(0); }
double __verif_strtod(const char*s,int n,int*ok){ *ok = nondet_int()&1; return nondet_double(); }
int __verif_fmt_double(char*o,int cap,double v,int prec){ return 0; }
void *_ZTVN10__cxxabiv120__si_class_type_infoE[8]; void *_ZTVN10__cxxabiv117__class_type_infoE[8]; void *_ZTVN10__cxxabiv121__vmi_class_type_infoE[8];
void harness(void){
  int optional=nondet_int()&1, strict=nondet_int()&1;
  char t[4]; int form=nondet_int(); __CPROVER_assume(form>=0&&form<3);
  /* forms: "$,"  ","  " $)" */
  if(form==0){ t[0]='$'; t[1]=','; t[2]=0; } else if(form==1){ t[0]=','; t[1]=0; } else { t[0]=' '; t[1]='$'; t[2]=')'; t[3]=0; }
  long v, pos; int sev = w_attr_int(t, optional, strict, &v, &pos);
  /* severities: NULL=3 USERMSG=2 INCOMPLETE=1 WARNING=0 INPUT_ERROR=-1 BUG=-2 */
  if(optional) assert(sev==3);
  else if(strict) assert(sev==1);
  else { assert(sev==2); assert(v==0); }
  assert(t[pos]==','||t[pos]==')');
}
