import sys
sys.path.insert(0,'/repo/src/exp2python/python')
from stepcode.AggregationDataTypes import ARRAY
from stepcode.SimpleDataTypes import INTEGER

def arr_bounds(b1: int, b2: int, i: int) -> bool:
    '''
    pre: -2 <= b1 <= b2 <= 3
    pre: -4 <= i <= 5
    post: __return__ == (b1 <= i <= b2)
    '''
    a = ARRAY(b1, b2, INTEGER)
    try:
        a[i] = INTEGER(7)
        return True
    except IndexError:
        return False
