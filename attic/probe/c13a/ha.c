#include <assert.h>
#include <stdlib.h>
void a_init(void); int a_insert(int,int); void a_remove(int); int a_count(void); int a_at(int); int a_index(int);
int nondet_int(void);
void *_Znwm(unsigned long n){ void *p = calloc(1,n); __CPROVER_assume(p!=0); return p; }
void *_Znam(unsigned long n){ void *p = calloc(1,n); __CPROVER_assume(p!=0); return p; }
void _ZdlPv(void*p){ free(p); } void _ZdaPv(void*p){ free(p); }
void __verif_bound_exceeded(void){ __CPROVER_assume(0); }
void *_ZTVN10__cxxabiv120__si_class_type_infoE[8]; void *_ZTVN10__cxxabiv117__class_type_infoE[8];
#ifndef K
#define K 3
#endif
static int ref[8], n;
void harness(void){ a_init(); n=0;
  for(int s=0;s<K;s++){ int op=nondet_int()&1; int pos=nondet_int();
    if(op==0){ __CPROVER_assume(pos>=0&&pos<=n); int r=a_insert(s,pos); assert(r==pos); for(int j=n;j>pos;j--) ref[j]=ref[j-1]; ref[pos]=s; n++; }
    else { __CPROVER_assume(pos>=-1&&pos<=n); a_remove(pos); if(pos>=0&&pos<n){ for(int j=pos;j+1<n;j++) ref[j]=ref[j+1]; n--; } }
    assert(a_count()==n);
    for(int i=0;i<K;i++){ if(i<n) assert(a_at(i)==ref[i]); }
  }
#ifdef WITNESS
  assert(0);
#endif
}
