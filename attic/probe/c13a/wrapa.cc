#include "clutils/gennode.h"
#include "clutils/gennodearray.h"
#include "clutils/gennodelist.h"
namespace std { istream cin; ostream cout, cerr, clog; }
static GenNodeArray *arr; static GenericNode *nodes[4];
extern "C" {
__attribute__((noinline)) void a_init() { arr = new GenNodeArray(1); for (int i = 0; i < 4; i++) nodes[i] = new GenericNode(); }
__attribute__((noinline)) int a_insert(int ni, int pos) { return arr->GenNodeArray::Insert(nodes[ni], pos); }
__attribute__((noinline)) void a_remove(int pos) { arr->GenNodeArray::Remove(pos); }
__attribute__((noinline)) int a_count() { return arr->Count(); }
__attribute__((noinline)) int a_at(int i) { GenericNode *g = (*arr)[i]; for (int k = 0; k < 4; k++) if (g == nodes[k]) return k; return g ? -2 : -1; }
__attribute__((noinline)) int a_index(int ni) { return arr->GenNodeArray::Index(nodes[ni]); }
}
