#include "clstepcore/complexSupport.h"
#include <cstdio>
#include <cstdlib>
ComplexCollect *gencomplex();
int main(int argc,char**argv){ unsigned mask=atoi(argv[1]); ComplexCollect *cc = gencomplex();
    const char *names[6]; int k = 0;
    if (mask & 1) names[k++] = "a"; if (mask & 2) names[k++] = "b"; if (mask & 4) names[k++] = "c"; if (mask & 8) names[k++] = "d"; if (mask & 16) names[k++] = "e"; names[k] = 0;
    EntNode *en = new EntNode(names); bool r = cc->supports(en); printf("%d\n", r?1:0); }
