#include <assert.h>
#include <stdlib.h>
#include <string.h>
int w_sort3(const char*,const char*,const char*,char*);
char nondet_char(void);
void *_Znwm(unsigned long n){ void *p = calloc(1,n); __CPROVER_assume(p!=0); return p; }
void _ZdlPv(void*p){ free(p); }
void __verif_bound_exceeded(void){ __CPROVER_assume(0); }
static int lt(const char*x,const char*y){ return x[0]<y[0] || (x[0]==y[0] && x[1]<y[1]); }
static int eq(const char*x,const char*y){ return x[0]==y[0] && x[1]==y[1]; }
void harness(void){ char n[3][3];
  for(int i=0;i<3;i++){ n[i][0]=nondet_char(); n[i][1]=nondet_char(); n[i][2]=0; __CPROVER_assume(n[i][0]>='a'&&n[i][0]<='e'); __CPROVER_assume(n[i][1]==0||(n[i][1]>='a'&&n[i][1]<='e')); }
  __CPROVER_assume(!eq(n[0],n[1])&&!eq(n[1],n[2])&&!eq(n[0],n[2]));
  char out[9]; int k=w_sort3(n[0],n[1],n[2],out);
  assert(k==3);
  assert(lt(out,out+3)&&lt(out+3,out+6));
  for(int i=0;i<3;i++) assert(eq(n[i],out)||eq(n[i],out+3)||eq(n[i],out+6));
#ifdef WITNESS
  assert(0);
#endif
}
