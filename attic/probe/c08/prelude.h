#include <stdio.h>
#undef BUFSIZ
#define BUFSIZ 3
