#include <assert.h>
#include <stdlib.h>
int w_supports(unsigned mask);
void *_Znwm(unsigned long n){ void *p = calloc(1,n); __CPROVER_assume(p!=0); return p; }
void _ZdlPv(void*p){ free(p); }
void __cxa_pure_virtual(void){ assert(0); }
void *__dynamic_cast(void*p, void*a, void*b, long c){ return p; }
void __verif_bound_exceeded(void){ __CPROVER_assume(0); }
void *_ZTVN10__cxxabiv120__si_class_type_infoE[8]; void *_ZTVN10__cxxabiv117__class_type_infoE[8];
void harness(void){ int r = w_supports(M); assert(r==EXPECT); }
