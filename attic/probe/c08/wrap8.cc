#include "clstepcore/complexSupport.h"
namespace std { istream cin; ostream cout, cerr, clog; }
ComplexCollect *gencomplex();
extern "C" {
__attribute__((noinline)) int w_supports(unsigned mask) {
    ComplexCollect *cc = gencomplex();
    const char *names[6]; int k = 0;
    if (mask & 1) names[k++] = "a";
    if (mask & 2) names[k++] = "b";
    if (mask & 4) names[k++] = "c";
    if (mask & 8) names[k++] = "d";
    if (mask & 16) names[k++] = "e";
    names[k] = 0;
    if (k == 0) return -1;
    EntNode *en = new EntNode(names);
    bool r = cc->supports(en);
    return r ? 1 : 0;
}
}
