#include "clstepcore/complexSupport.h"
namespace std { istream cin; ostream cout, cerr, clog; }
extern "C" {
__attribute__((noinline)) int w_sort3(const char *a, const char *b, const char *c, char *out /* 3 x 3 bytes */) {
    const char *names[4] = { a, b, c, 0 };
    EntNode *en = new EntNode(names);
    int k = 0;
    for (EntNode *p = en; p && k < 4; p = p->next, k++) {
        if (k < 3) { const char *n = p->Name(); out[3*k] = n[0]; out[3*k+1] = n[0] ? n[1] : 0; out[3*k+2] = 0; }
    }
    return k;
}
}
