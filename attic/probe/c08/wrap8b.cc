#include "clstepcore/complexSupport.h"
namespace std { istream cin; ostream cout, cerr, clog; }
ComplexCollect *gencomplex();
extern "C" {
__attribute__((noinline)) int w_supports3(char n0, char n1, char n2) {
    ComplexCollect *cc = gencomplex();
    char s0[2] = { n0, 0 }, s1[2] = { n1, 0 }, s2[2] = { n2, 0 };
    const char *names[4] = { s0, s1, s2, 0 };
    EntNode *en = new EntNode(names);
    bool r = cc->supports(en);
    return r ? 1 : 0;
}
}
