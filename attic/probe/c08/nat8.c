#include <stdlib.h>
#include <stdio.h>
void *_Znwm(unsigned long n){ return calloc(1,n); }
void _ZdlPv(void*p){ free(p); }
void __cxa_pure_virtual(void){ abort(); }
void *__dynamic_cast(void*p, void*a, void*b, long c){ return p; }
void __verif_bound_exceeded(void){ fprintf(stderr,"BOUND\n"); exit(3); }
int w_supports(unsigned mask);
int main(int argc,char**argv){ if(argc>1){ printf("%d\n", w_supports(atoi(argv[1]))); return 0;} for(unsigned m=1;m<32;m++){ printf("%u %d\n",m,w_supports(m)); fflush(stdout);} }
void __CPROVER_assume(int c){ if(!c){ fprintf(stderr,"ASSUME0\n"); exit(4);} }
void *_ZTVN10__cxxabiv120__si_class_type_infoE[8]; void *_ZTVN10__cxxabiv117__class_type_infoE[8];
