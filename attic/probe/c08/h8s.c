#include <assert.h>
#include <stdlib.h>
int w_supports(unsigned mask);
unsigned nondet_uint(void);
void *_Znwm(unsigned long n){ void *p = calloc(1,n); __CPROVER_assume(p!=0); return p; }
void _ZdlPv(void*p){ free(p); }
void __cxa_pure_virtual(void){ assert(0); }
void *__dynamic_cast(void*p, void*a, void*b, long c){ return p; }
void __verif_bound_exceeded(void){ __CPROVER_assume(0); }
void *_ZTVN10__cxxabiv120__si_class_type_infoE[8]; void *_ZTVN10__cxxabiv117__class_type_infoE[8];
static int legal(unsigned m){ int a=m&1,b=!!(m&2),c=!!(m&4),d=!!(m&8),e=!!(m&16);
  if(!a) return 0; if(e && !(b&&d)) return 0; if(b&&c) return 0; return 1; }
void harness(void){ unsigned m = nondet_uint(); __CPROVER_assume(m>=1 && m<32); int r=-2;
  switch(m){
    case 1: r = w_supports(1); break;
    case 2: r = w_supports(2); break;
    case 3: r = w_supports(3); break;
    case 4: r = w_supports(4); break;
    case 5: r = w_supports(5); break;
    case 6: r = w_supports(6); break;
    case 7: r = w_supports(7); break;
    case 8: r = w_supports(8); break;
    case 9: r = w_supports(9); break;
    case 10: r = w_supports(10); break;
    case 11: r = w_supports(11); break;
    case 12: r = w_supports(12); break;
    case 13: r = w_supports(13); break;
    case 14: r = w_supports(14); break;
    case 15: r = w_supports(15); break;
    case 16: r = w_supports(16); break;
    case 17: r = w_supports(17); break;
    case 18: r = w_supports(18); break;
    case 19: r = w_supports(19); break;
    case 20: r = w_supports(20); break;
    case 21: r = w_supports(21); break;
    case 22: r = w_supports(22); break;
    case 23: r = w_supports(23); break;
    case 24: r = w_supports(24); break;
    case 25: r = w_supports(25); break;
    case 26: r = w_supports(26); break;
    case 27: r = w_supports(27); break;
    case 28: r = w_supports(28); break;
    case 29: r = w_supports(29); break;
    case 30: r = w_supports(30); break;
    case 31: r = w_supports(31); break;
  }
  int parts = (m&1)+!!(m&2)+!!(m&4)+!!(m&8)+!!(m&16);
  if (parts>=2) assert(r == legal(m));
}
