#include <assert.h>
#include <stdlib.h>
int w_supports(unsigned mask);
unsigned nondet_uint(void);
void *_Znwm(unsigned long n){ void *p = calloc(1,n); __CPROVER_assume(p!=0); return p; }
void _ZdlPv(void*p){ free(p); }
void __cxa_pure_virtual(void){ assert(0); }
void *__dynamic_cast(void*p, void*a, void*b, long c){ return p; }
void __verif_bound_exceeded(void){ __CPROVER_assume(0); }
void *_ZTVN10__cxxabiv120__si_class_type_infoE[8]; void *_ZTVN10__cxxabiv117__class_type_infoE[8];
static int legal(unsigned m){ int a=m&1,b=!!(m&2),c=!!(m&4),d=!!(m&8),e=!!(m&16);
  if(!a) return 0; if(e && !(b&&d)) return 0; if(b&&c) return 0; return 1; }
void harness(void){ unsigned m = nondet_uint(); __CPROVER_assume((m & ~SYM) == FIX && m<32);
  int r = w_supports(m);
  int parts = (m&1)+!!(m&2)+!!(m&4)+!!(m&8)+!!(m&16);
  if (parts>=2) assert(r == legal(m));
}
