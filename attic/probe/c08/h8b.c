#include <assert.h>
#include <stdlib.h>
int w_supports3(char,char,char);
char nondet_char(void);
void *_Znwm(unsigned long n){ void *p = calloc(1,n); __CPROVER_assume(p!=0); return p; }
void _ZdlPv(void*p){ free(p); }
void __cxa_pure_virtual(void){ assert(0); }
void *__dynamic_cast(void*p, void*a, void*b, long c){ return p; }
void __verif_bound_exceeded(void){ __CPROVER_assume(0); }
void *_ZTVN10__cxxabiv120__si_class_type_infoE[8]; void *_ZTVN10__cxxabiv117__class_type_infoE[8];
static int legal(unsigned m){ int a=m&1,b=!!(m&2),c=!!(m&4),d=!!(m&8),e=!!(m&16);
  if(!a) return 0; if(e && !(b&&d)) return 0; if(b&&c) return 0; return 1; }
void harness(void){ char n0=nondet_char(), n1=nondet_char(), n2=nondet_char();
  __CPROVER_assume(n0>='a'&&n0<='e'&&n1>='a'&&n1<='e'&&n2>='a'&&n2<='e'&&n0!=n1&&n1!=n2&&n0!=n2);
  unsigned m = (1u<<(n0-'a'))|(1u<<(n1-'a'))|(1u<<(n2-'a'));
  int r = w_supports3(n0,n1,n2);
  assert(r == legal(m));
}
