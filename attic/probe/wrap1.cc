#include "clstepcore/read_func.h"
#include "clutils/Str.h"
#include <sstream>
namespace std { istream cin; ostream cout, cerr, clog; }
extern "C" {
__attribute__((noinline)) int w_ReadReal(const char *s, const char *delims, double *val, int *sev, long *pos, int *state) {
    std::istringstream in(s);
    ErrorDescriptor e;
    SDAI_Real v = 0;
    int r = ReadReal(v, in, &e, delims);
    *val = v; *sev = (int)e.severity(); *pos = in.pos; *state = in.st;
    return r;
}
__attribute__((noinline)) int w_ReadInteger(const char *s, const char *delims, long *val, int *sev, long *pos, int *state) {
    std::istringstream in(s);
    ErrorDescriptor e;
    SDAI_Integer v = 0;
    int r = ReadInteger(v, in, &e, delims);
    *val = v; *sev = (int)e.severity(); *pos = in.pos; *state = in.st;
    return r;
}
__attribute__((noinline)) int w_GetLiteralStr(const char *s, char *out, int cap, int *sev, long *pos) {
    std::istringstream in(s);
    ErrorDescriptor e;
    std::string r = GetLiteralStr(in, &e);
    int i = 0; for (; i < (int)r.size() && i < cap-1; i++) out[i] = r[i]; out[i] = 0;
    *sev = (int)e.severity(); *pos = in.pos;
    return (int)r.size();
}
}
