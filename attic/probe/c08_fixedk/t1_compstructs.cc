/*
 * This file contains instantiation statements to create complex
 * support structures.  The structures will be used in the SCL to
 * validate user requests to instantiate complex entities.
 */

#include "clstepcore/complexSupport.h"

ComplexCollect *gencomplex()
    /*
     * This function contains instantiation statements for all the
     * ComplexLists and EntLists in a ComplexCollect.  The instan-
     * stiation statements were generated in order of lower to
     * higher, and last to first to simplify creating some of the
     * links between structures.  Because of this, the code is not
     * very readable, but does the trick.
     */
{
    ComplexCollect *cc;
    ComplexList *cl;
    EntList *node, *child;
    EntList *next[7];

    cc = new ComplexCollect;

    // ComplexList with supertype "a":
    node = new SimpleList( "e" );
    child = node;
    node = new AndOrList;
    ((MultList *)node)->appendList( child );
    next[4] = node;
    node = new SimpleList( "d" );
    next[4]->prev = node;
    node->next = next[4];
    child = node;
    node = new AndList;
    ((MultList *)node)->appendList( child );
    next[3] = node;
    node = new SimpleList( "d" );
    next[3]->prev = node;
    node->next = next[3];
    child = node;
    node = new OrList;
    ((MultList *)node)->appendList( child );
    next[2] = node;
    node = new SimpleList( "c" );
    next[3] = node;
    node = new SimpleList( "e" );
    child = node;
    node = new AndOrList;
    ((MultList *)node)->appendList( child );
    next[5] = node;
    node = new SimpleList( "b" );
    next[5]->prev = node;
    node->next = next[5];
    child = node;
    node = new AndList;
    ((MultList *)node)->appendList( child );
    next[4] = node;
    node = new SimpleList( "b" );
    next[4]->prev = node;
    node->next = next[4];
    child = node;
    node = new OrList;
    ((MultList *)node)->appendList( child );
    next[3]->prev = node;
    node->next = next[3];
    child = node;
    node = new OrList;
    ((MultList *)node)->appendList( child );
    next[2]->prev = node;
    node->next = next[2];
    child = node;
    node = new AndOrList;
    ((MultList *)node)->appendList( child );
    next[1] = node;
    node = new SimpleList( "a" );
    next[1]->prev = node;
    node->next = next[1];
    child = node;
    node = new AndList;
    ((MultList *)node)->appendList( child );
    cl = new ComplexList((AndList *)node);
    cl->buildList();
    cl->head->setLevel( 0 );
    cc->insert( cl );

    return cc;
}
