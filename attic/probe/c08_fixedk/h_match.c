/* C08 (legality kernel, one schema): for harness/C08/t1.exp
 *     a SUPERTYPE OF (ONEOF(b, c) ANDOR d);  b, c, d SUBTYPE OF (a);  e SUBTYPE OF (b, d)
 * ComplexCollect::supports(names) == legal(names) for every set of K distinct entity names (symbolic bytes over a..e),
 * given in strictly increasing order (the order the EntNode constructor delivers -- entnode_sort_k*). */
#ifndef K
#define K 2
#endif
#define VERIF_INPUTS(S,A) A(char,n0,2) A(char,n1,2) A(char,n2,2) A(char,n3,2)
#include "verif.h"
int w_supports(int n, const char *a, const char *b, const char *c, const char *d);
static int legal(unsigned m) { int a = m & 1, b = !!(m & 2), c = !!(m & 4), d = !!(m & 8), e = !!(m & 16);
    if(!a) return 0;               /* every member's supertype a must be present */
    if(e && !(b && d)) return 0;   /* e needs both its supertypes */
    if(b && c) return 0;           /* ONEOF(b, c) */
    return 1; }
void harness(void) {
    char *n[4]; int i, r; unsigned m = 0;
    VERIF_BEGIN();
    n[0] = n0; n[1] = n1; n[2] = n2; n[3] = n3;
    for(i = 0; i < 4; i++) { n[i][1] = 0; ASSUME(n[i][0] >= 'a' && n[i][0] <= 'e'); }
    for(i = 0; i + 1 < K; i++) ASSUME(n[i][0] < n[i + 1][0]);
    for(i = 0; i < K; i++) m |= 1u << (n[i][0] - 'a');
    r = w_supports(K, n[0], n[1], n[2], n[3]);
    OBS("mask=%u supports=%d legal=%d", m, r, legal(m));
    CHECK(r == legal(m), "the matcher accepts the set exactly when it is legal");
    VERIF_END();
}
