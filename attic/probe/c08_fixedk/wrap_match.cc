// extern "C" entry point over ComplexCollect::supports for the supertype trees exp2cxx generated for harness/C08/t1.exp
// (t1_compstructs.cc, captured generator output). The shape of the instance's name list is concrete (K nodes); the names
// themselves are symbolic bytes, so the SET of entities is a solver variable.
#include "clstepcore/complexSupport.h"
#include "../common/stdstreams.h"
ComplexCollect *gencomplex();
extern "C" {
__attribute__((noinline)) int w_supports(int n, const char *a, const char *b, const char *c, const char *d) {
    ComplexCollect *cc = gencomplex();
    const char *names[5] = { a, b, c, d, 0 };
    names[n] = 0;
    EntNode *en = new EntNode(names);
    bool r = cc->supports(en);
    return r ? 1 : 0;
}
}
