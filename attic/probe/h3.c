#include <assert.h>
int w_ReadInteger(const char *s, const char *delims, long *val, int *sev, long *pos, int *state);
int w_ReadReal(const char *s, const char *delims, double *val, int *sev, long *pos, int *state);
char nondet_char(void);
void __verif_bound_exceeded(void){ __CPROVER_assume(0); }
double nondet_double(void); int nondet_int(void);
double __verif_strtod(const char*s,int n,int*ok){ *ok = nondet_int() & 1; return nondet_double(); }
int __verif_fmt_double(char*o,int cap,double v,int prec){ return 0; }
#ifndef N
#define N 21
#endif
void harness_int_ovf(void) {
  char buf[N+2]; int len = nondet_int(); __CPROVER_assume(len>=1 && len<=N);
  for (int i=0;i<N;i++){ buf[i]=nondet_char(); if (i<len) __CPROVER_assume(buf[i]>='0'&&buf[i]<='9'); }
  buf[len]=','; buf[len+1]=0;
  long v=12345; int sev, st; long pos;
  int r = w_ReadInteger(buf, ",)", &v, &sev, &pos, &st);
  /* never silently unset: either assigned, or an error severity is raised */
  assert(r==1 || sev < 3);
}
void harness_real_len(void) {
  char buf[N+2]; int len = nondet_int(); __CPROVER_assume(len>=1 && len<=N);
  for (int i=0;i<N;i++) buf[i]='7';
  buf[len]=','; buf[len+1]=0;
  double v; int sev, st; long pos;
  w_ReadReal(buf, ",)", &v, &sev, &pos, &st);
}
