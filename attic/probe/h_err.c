#include <string.h>
#include <stdbool.h>
#include "express/error.h"
char nondet_char(void);
void EXPRESSusage(int x) { __CPROVER_assume(0); }
int EXPRESS_fail(void *m) { return 1; }
void harness_set_warning(void) {
    char name[6];
    for (int i=0;i<5;i++) name[i]=nondet_char();
    name[5]=0;
    bool w; 
    ERRORset_warning(name, w);
}
