#include "clstepcore/read_func.h"
#include "clutils/Str.h"
#include <sstream>
#include <cstdio>
int main(int argc,char**argv){ for(int i=1;i<argc;i++){ 
 { std::istringstream in(argv[i]); ErrorDescriptor e; SDAI_Real v=0; int r=ReadReal(v,in,&e,",)"); in.clear(); printf("R[%s] r=%d v=%.15g sev=%d pos=%ld\n",argv[i],r,v,(int)e.severity(),(long)in.tellg()); }
 { std::istringstream in(argv[i]); ErrorDescriptor e; SDAI_Integer v=0; int r=ReadInteger(v,in,&e,",)"); in.clear(); printf("I[%s] r=%d v=%ld sev=%d pos=%ld\n",argv[i],r,v,(int)e.severity(),(long)in.tellg()); }
 { std::istringstream in(argv[i]); ErrorDescriptor e; std::string s=GetLiteralStr(in,&e); in.clear(); printf("S[%s] r=%d v=[%s] sev=%d pos=%ld\n",argv[i],(int)s.size(),s.c_str(),(int)e.severity(),(long)in.tellg()); }
 } }
