#include <stdarg.h>
#include <string.h>
#include <stdio.h>
#include <assert.h>
#include "express/error.h"
#include "express/express.h"
static char cap[128]; static int capn;
static void put(char c){ if(capn<127){ cap[capn++]=c; cap[capn]=0; } }
static void puts_(const char*s){ for(int i=0;i<40 && s[i];i++) put(s[i]); }
static void putd(int v){ char t[12]; int k=0; if(v<0){put('-'); v=-v;} do{ t[k++]='0'+v%10; v/=10; }while(v); while(k) put(t[--k]); }
static void vfmt(const char*f, va_list ap){ for(int i=0;i<80 && f[i];i++){ if(f[i]!='%'){ put(f[i]); continue;} i++; while(f[i]>='0'&&f[i]<='9') i++; 
   if(f[i]=='s'){ const char*s=va_arg(ap,const char*); puts_(s);} else if(f[i]=='d'||f[i]=='x'){ putd(va_arg(ap,int)); } else if(f[i]=='c'){ put((char)va_arg(ap,int)); } else put(f[i]); } }
int vfprintf(FILE*fp,const char*f,va_list ap){ vfmt(f,ap); return 0; }
int fprintf(FILE*fp,const char*f,...){ va_list ap; va_start(ap,f); vfmt(f,ap); va_end(ap); return 0; }
int vsnprintf(char*b,size_t n,const char*f,va_list ap){ vfmt(f,ap); return 0; }
int EXPRESS_fail(Express m){ return 1; }
void EXPRESSusage(int x){ __CPROVER_assume(0); }
char nondet_char(void);
static int contains(const char*h,const char*n){ int ln=strlen(n); for(int i=0;i<128;i++){ if(!h[i]) return 0; int ok=1; for(int j=0;j<ln;j++){ if(h[i+j]!=n[j]){ok=0;break;} } if(ok) return 1; } return 0; }
void harness_line(void){
  char id[4]; id[0]='_'; id[1]=nondet_char(); id[2]=nondet_char(); id[3]=0;
  __CPROVER_assume(id[1]>='a'&&id[1]<='z'&&id[2]>='a'&&id[2]<='z');
  __ERROR_buffer_errors = false; capn=0; cap[0]=0; current_filename="f.exp";
  ERRORreport_with_line(BAD_IDENTIFIER, 7, id);
  { const char *pre="f.exp:7: --ERROR PE032: identifier ("; int n=0; while(pre[n]) n++; for(int i=0;i<40;i++){ if(i<n) assert(cap[i]==pre[i]); } assert(cap[n]==id[0]&&cap[n+1]==id[1]&&cap[n+2]==id[2]&&cap[n+3]==')'); }
}
void harness_symbol(void){
  char id[4]; id[0]='_'; id[1]=nondet_char(); id[2]=nondet_char(); id[3]=0;
  __CPROVER_assume(id[1]>='a'&&id[1]<='z'&&id[2]>='a'&&id[2]<='z');
  __ERROR_buffer_errors = false; capn=0; cap[0]=0;
  Symbol s; s.filename="f.exp"; s.line=7; current_filename="f.exp";
  ERRORreport_with_symbol(BAD_IDENTIFIER, &s, id);
  { const char *pre="f.exp:7: --ERROR PE032: identifier ("; int n=0; while(pre[n]) n++; for(int i=0;i<40;i++){ if(i<n) assert(cap[i]==pre[i]); } assert(cap[n]==id[0]&&cap[n+1]==id[1]&&cap[n+2]==id[2]&&cap[n+3]==')'); }
}
