import sys
sys.path.insert(0,'/repo/src/exp2python/python')
from stepcode.AggregationDataTypes import BAG, ARRAY
from stepcode.SimpleDataTypes import INTEGER

def bag_capacity(b1: int, b2: int, n: int) -> int:
    '''
    pre: 0 <= b1 <= b2 <= 4
    pre: 0 <= n <= 5
    post: __return__ == min(n, b2)
    '''
    b = BAG(b1, b2, INTEGER)
    k = 0
    for i in range(n):
        try:
            b.add(INTEGER(i))
            k += 1
        except AssertionError:
            break
    return k
