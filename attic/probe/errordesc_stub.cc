#include "clutils/errordesc.h"
/* logging model: message text is dropped, severity kept (real inline code in errordesc.h) */
DebugLevel ErrorDescriptor::_debug_level = DEBUG_OFF;
ostream  * ErrorDescriptor::_out = 0;
ErrorDescriptor::ErrorDescriptor( Severity s,  DebugLevel d ) : _severity( s ) { (void)d; }
ErrorDescriptor::~ErrorDescriptor( void ) {}
void ErrorDescriptor::UserMsg( const char * ) {}
void ErrorDescriptor::PrependToUserMsg( const char * ) {}
void ErrorDescriptor::AppendToUserMsg( const char ) {}
void ErrorDescriptor::AppendToUserMsg( const char * ) {}
void ErrorDescriptor::DetailMsg( const char * ) {}
void ErrorDescriptor::PrependToDetailMsg( const char * ) {}
void ErrorDescriptor::AppendToDetailMsg( const char ) {}
void ErrorDescriptor::AppendToDetailMsg( const char * ) {}
